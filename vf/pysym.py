"""E2 "pysym": translate small numeric Python kernels from their CURRENT source (inspect.getsource + ast) into SMT terms.

The function body is interpreted symbolically, path by path (an `if`/`while` on a symbolic condition forks the path; `for i in
range(n)` is unrolled, a symbolic trip count is case-split up to the unwinding bound). Three numeric back ends:

* `Z3Real`  - mathematical integers / reals as z3 terms (python floats are read as the exact rationals they denote; float
              rounding is outside any claim made with this back end),
* `FP64`    - IEEE-754 binary64 with round-to-nearest-even as SMT-LIB text for the cvc5 binary (QF_BVFP); python ints are
              signed 64-bit bit-vectors, `int(float)` is round-toward-zero, `round(float)` is round-half-even,
* `FPReal`  - a sound over-approximation of binary64 arithmetic in z3 Int/Real (each operation returns the nearest point of the
              grid of the result's binade, ties left open): only its `unsat` answers are proofs; its models are candidate
              inputs that count only after they reproduced on the real function.

Everything the translator does not know makes it raise `Unsupported` (the obligation then reports `inconclusive` with the
reason) - nothing is skipped silently. Environment calls are given as a stub table {unparsed callee text: fn(sym, st, args, kwargs)}.
Abstract (non-numeric) python objects - the decimal string of an integer, a Decimal, a plain-notation digit string - are small
classes below with `sym_*` / `m_<method>` hooks.
"""
from __future__ import annotations

import ast
import inspect
import os
import re
import struct
import subprocess
import tempfile
import textwrap
import time
from fractions import Fraction

CVC5 = os.environ.get('VERIF_CVC5', '/usr/bin/cvc5')


class Unsupported(Exception):
    """Construct outside the translated subset (=> obligation inconclusive, never a silent skip)."""


NORET = object()


class Multi:
    """Expression value with alternatives [(condition term | True, value)] - only allowed as the whole right-hand side of an
    assignment / return (the statement forks)."""

    def __init__(self, alts):
        self.alts = alts


class State:
    __slots__ = ('env', 'conds', 'trace', 'assumes', 'notes')

    def __init__(self, env=None, conds=None, trace=None, assumes=None, notes=None):
        self.env, self.conds, self.trace = env or {}, conds or [], trace or []
        self.assumes, self.notes = assumes or [], notes or []

    def fork(self, extra=None):
        s = State(dict(self.env), list(self.conds), list(self.trace), list(self.assumes), list(self.notes))
        if extra is not None and extra is not True:
            s.conds.append(extra)
        return s


class Path:
    def __init__(self, st: State, ret):
        self.conds, self.env, self.trace, self.assumes, self.notes, self.ret = st.conds, st.env, st.trace, st.assumes, st.notes, ret


def source_def(fn) -> ast.FunctionDef:
    """FunctionDef of a function / method / classmethod / staticmethod object, read from its source file now."""
    fn = getattr(fn, '__func__', fn)
    fn = inspect.unwrap(fn)
    tree = ast.parse(textwrap.dedent(inspect.getsource(fn)))
    node = tree.body[0]
    if not isinstance(node, ast.FunctionDef):
        raise Unsupported('not a function definition: ' + type(node).__name__)
    return node


# ------------------------------------------------------------------------------------------------ abstract python values

REGEX_MATCH = object()       # stands for a (truthy, not None) re.Match


class DecStr:
    """The str that is the canonical decimal representation of an integer term (str(int) / the text of an xsd integer)."""
    pytype = 'str'

    def __init__(self, term, nonneg=False):
        self.term = term
        self.nonneg = nonneg        # the creator knows that the integer is >= 0 (then the text has no sign)

    def sym_int(self, sym, st):
        return self.term

    # lexical facts about a canonical decimal text  -?(0|[1-9][0-9]*)
    def m_strip(self, sym, st, chars=None):
        if chars is not None and not (isinstance(chars, str) and all(c in ' \t\n\r' for c in chars)):
            raise Unsupported('strip() of other characters than XML whitespace on str(int)')
        return self                 # no whitespace in it

    def m_startswith(self, sym, st, prefix):
        if prefix != '-':
            raise Unsupported('startswith() other than the sign on str(int)')
        if self.nonneg:
            return False
        return sym.be.cmp('lt', self.term, 0)

    def sym_eq(self, sym, other):
        if isinstance(other, DecStr):
            return sym.be.cmp('eq', self.term, other.term)
        raise Unsupported('DecStr compared with ' + type(other).__name__)

    def sym_format(self, sym, spec, st):
        if spec == '':
            return self
        raise Unsupported('format spec on str(int)')

    def m_zfill(self, sym, st, width):
        if not isinstance(width, int):
            raise Unsupported('zfill width')
        return PaddedDigits(self.term, width, False)


class PaddedDigits:
    """str(n).zfill(width) for an integer term n >= 0 - exactly `width` digits when n < 10^width (the oracle has to assert
    that) - optionally with trailing zeros stripped (rstrip('0'))."""
    pytype = 'str'

    def __init__(self, term, width, rstripped):
        self.term, self.width, self.rstripped = term, width, rstripped

    def m_rstrip(self, sym, st, chars=None):
        if chars != '0':
            raise Unsupported('rstrip argument')
        return PaddedDigits(self.term, self.width, True)

    def sym_format(self, sym, spec, st):
        if spec == '':
            return self
        raise Unsupported('format spec on padded digits')


class Opaque:
    """A value the kernel only passes around (message objects ...)."""

    def __init__(self, name):
        self.name = name

    def __repr__(self):
        return f'<{self.name}>'


class Record:
    """Result of a constructor stub: named fields."""

    def __init__(self, kind, **fields):
        self.kind, self.fields = kind, fields

    def sym_getattr(self, name):
        return self.fields[name]


# ------------------------------------------------------------------------------------------------ interpreter

_ARITH = {ast.Add: 'add', ast.Sub: 'sub', ast.Mult: 'mul', ast.Div: 'div', ast.FloorDiv: 'floordiv', ast.Mod: 'mod'}
_CMP = {ast.Lt: 'lt', ast.LtE: 'le', ast.Gt: 'gt', ast.GtE: 'ge', ast.Eq: 'eq', ast.NotEq: 'ne'}


def _bool_sorted(term):
    sort = getattr(term, 'sort', None)
    if isinstance(sort, str):            # FP back end: T(sort tag, text)
        return sort == 'B'
    try:
        return sort().name() == 'Bool'   # z3 ExprRef
    except Exception:  # noqa: BLE001
        return True                      # unknown term kind: stay conservative


class Sym:
    def __init__(self, fn, be, stubs=None, fields=None, inline=None, unroll=8, prune=False):
        self.fdef = fn if isinstance(fn, ast.FunctionDef) else source_def(fn)
        # module-level constants of the function's module (str / int / compiled regex) may be named in the body
        self.globals = {} if isinstance(fn, ast.FunctionDef) else dict(getattr(getattr(fn, '__func__', fn), '__globals__', {}))
        self.be, self.stubs, self.fields, self.inline = be, dict(stubs or {}), dict(fields or {}), dict(inline or {})
        self.unroll, self.prune = unroll, prune
        self.unwind = []          # [(conds, assumes)] of paths that would need more loop iterations than the bound
        self.fresh = 0
        self.nondet = {}          # name -> term of every nondeterministic variable created by stubs

    # -- helpers for stubs
    def new(self, name, sort):
        self.fresh += 1
        full = f'{name}_{self.fresh}'
        v = self.be.var(full, sort)
        self.nondet[full] = v
        return v

    def run(self, args: dict) -> list:
        st = State(env=dict(args))
        return [Path(s, None if r is NORET else r) for s, r in self._block(self.fdef.body, st)]

    # -- statements
    def _block(self, stmts, st):
        states, done = [st], []
        for node in stmts:
            nxt = []
            for s in states:
                for s2, ret in self._stmt(node, s):
                    (nxt if ret is NORET else done).append((s2, ret))
            states = [s for s, _ in nxt]
            if not states:
                break
        return [(s, NORET) for s in states] + done

    def _feasible(self, st):
        return not self.prune or self.be.feasible(st.conds + st.assumes)

    def _fork_on(self, st, c):
        """-> [(state, truth)] for a condition that may be concrete or symbolic."""
        c = self.truth(c, st)
        if isinstance(c, bool):
            return [(st, c)]
        out = []
        for val, cond in ((True, c), (False, self.be.not_(c))):
            s = st.fork(cond)
            if self._feasible(s):
                out.append((s, val))
        return out

    def _assign(self, st, target, value):
        if isinstance(target, ast.Name):
            st.env[target.id] = value
        elif isinstance(target, ast.Tuple) and isinstance(value, (tuple, list)) and len(target.elts) == len(value):
            for t, v in zip(target.elts, value):
                self._assign(st, t, v)
        else:
            raise Unsupported('assignment target ' + ast.unparse(target))

    def _value_alts(self, st, node):
        """Evaluate the right-hand side of an assignment / return: -> [(state, value)] (forks on inlined calls and Multi)."""
        if isinstance(node, ast.Call) and ast.unparse(node.func) in self.inline:
            args = [self._expr(a, st) for a in node.args]
            fdef = source_def(self.inline[ast.unparse(node.func)])
            names = [a.arg for a in fdef.args.args]
            if names and names[0] in ('self', 'cls'):
                args = [st.env.get(names[0])] + args
            if len(names) != len(args):
                raise Unsupported('inlined call arity ' + ast.unparse(node))
            sub = st.fork()
            saved = sub.env
            sub.env = dict(zip(names, args))
            out = []
            for s2, ret in self._block(fdef.body, sub):
                s2.env = dict(saved)
                out.append((s2, None if ret is NORET else ret))
            return out
        v = self._expr(node, st)
        if isinstance(v, Multi):
            out = []
            for cond, val in v.alts:
                s = st.fork(cond)
                if self._feasible(s):
                    out.append((s, val))
            return out
        return [(st, v)]

    def _stmt(self, node, st):
        if isinstance(node, ast.Expr):
            if not isinstance(node.value, ast.Constant):
                self._expr(node.value, st)
            return [(st, NORET)]
        if isinstance(node, ast.Pass):
            return [(st, NORET)]
        if isinstance(node, ast.Assign) and len(node.targets) == 1:
            out = []
            for s, v in self._value_alts(st, node.value):
                self._assign(s, node.targets[0], v)
                out.append((s, NORET))
            return out
        if isinstance(node, ast.AugAssign) and isinstance(node.target, ast.Name) and type(node.op) in _ARITH:
            st.env[node.target.id] = self.arith(_ARITH[type(node.op)], st.env[node.target.id], self._expr(node.value, st))
            return [(st, NORET)]
        if isinstance(node, ast.Return):
            if node.value is None:
                return [(st, None)]
            return list(self._value_alts(st, node.value))
        if isinstance(node, ast.If):
            out = []
            for s, val in self._fork_on(st, self._expr(node.test, st)):
                out.extend(self._block(node.body if val else node.orelse, s))
            return out
        if isinstance(node, ast.Raise):
            st.notes.append('raise:' + (ast.unparse(node.exc)[:60] if node.exc else ''))
            return [(st, Record('raised', what=ast.unparse(node.exc) if node.exc else ''))]
        if isinstance(node, ast.For) and isinstance(node.iter, ast.Call) and ast.unparse(node.iter.func) == 'range' \
                and len(node.iter.args) == 1 and isinstance(node.target, ast.Name) and not node.orelse:
            n = self._expr(node.iter.args[0], st)
            if self.be.is_term(n):
                out = []
                for c in range(self.unroll + 1):
                    s = st.fork(self.be.cmp('eq', n, c) if c else self.be.cmp('le', n, 0))      # range(n) is empty for n <= 0
                    if self._feasible(s):
                        out.extend(self._unrolled(node, s, c))
                over = st.fork(self.be.cmp('gt', n, self.unroll))
                self.unwind.append((over.conds, over.assumes))
                return out
            if not isinstance(n, int):
                raise Unsupported('range() argument ' + ast.unparse(node.iter))
            if n > self.unroll:
                self.unwind.append((st.conds, st.assumes))
                return []
            return self._unrolled(node, st, n)
        if isinstance(node, ast.While) and not node.orelse:
            live, out = [st], []
            for _ in range(self.unroll + 1):
                nxt = []
                for s in live:
                    for s2, val in self._fork_on(s, self._expr(node.test, s)):
                        if not val:
                            out.append((s2, NORET))
                            continue
                        for s3, ret in self._block(node.body, s2):
                            (nxt if ret is NORET else out).append((s3, ret))
                live = [s for s, _ in nxt]
                if not live:
                    break
            for s in live:
                self.unwind.append((s.conds, s.assumes))
            return out
        raise Unsupported('statement ' + ast.dump(node)[:90])

    def _unrolled(self, node, st, n):
        states, done = [st], []
        for i in range(n):
            nxt = []
            for s in states:
                s.env[node.target.id] = i
                for s2, ret in self._block(node.body, s):
                    (nxt if ret is NORET else done).append((s2, ret))
            states = [s for s, _ in nxt]
        return [(s, NORET) for s in states] + done

    # -- values
    def is_sym(self, v):
        return self.be.is_term(v)

    def truth(self, v, st=None):
        if isinstance(v, bool) or v is None:
            return bool(v)
        if self.be.is_term(v):
            return self.be.as_bool(v)
        if isinstance(v, (int, float, str, Fraction, tuple, list)):
            return bool(v)
        if hasattr(v, 'sym_truth'):
            return v.sym_truth(self)
        if isinstance(v, (Opaque, Record, DecStr)):
            return True
        raise Unsupported('truth value of ' + type(v).__name__)

    def arith(self, op, a, b):
        a, b = self.be.lift(a), self.be.lift(b)
        if not self.be.is_term(a) and not self.be.is_term(b):
            if isinstance(a, (int, float, Fraction)) and isinstance(b, (int, float, Fraction)) \
                    and not isinstance(a, bool) and not isinstance(b, bool):
                return self.be.fold(op, a, b)
            if op == 'add' and isinstance(a, str) and isinstance(b, str):
                return a + b
            raise Unsupported(f'{op} on {type(a).__name__}, {type(b).__name__}')
        return self.be.arith(op, a, b)

    def compare(self, op, a, b):
        a, b = self.be.lift(a), self.be.lift(b)
        if hasattr(a, 'sym_eq') or hasattr(b, 'sym_eq'):
            if op not in ('eq', 'ne'):
                raise Unsupported('ordering of abstract values')
            r = a.sym_eq(self, b) if hasattr(a, 'sym_eq') else b.sym_eq(self, a)
            return r if op == 'eq' else (not r if isinstance(r, bool) else self.be.not_(r))
        if not self.be.is_term(a) and not self.be.is_term(b):
            if a is None or b is None or isinstance(a, (int, float, Fraction, str)) and isinstance(b, (int, float, Fraction, str)):
                return {'lt': lambda: a < b, 'le': lambda: a <= b, 'gt': lambda: a > b, 'ge': lambda: a >= b,
                        'eq': lambda: a == b, 'ne': lambda: a != b}[op]()
            raise Unsupported(f'comparison of {type(a).__name__}, {type(b).__name__}')
        return self.be.cmp(op, a, b)

    def contains(self, item, container, st):
        if isinstance(container, (tuple, list)):
            terms = [self.compare('eq', item, c) for c in container]
            if any(t is True for t in terms):
                return True
            terms = [t for t in terms if t is not False]
            return self.be.or_(*terms) if terms else False
        if hasattr(container, 'sym_contains'):
            return container.sym_contains(self, item)
        if isinstance(container, str) and isinstance(item, str):
            return item in container
        raise Unsupported('membership in ' + type(container).__name__)

    def _expr(self, e, st):
        be = self.be
        if isinstance(e, ast.Constant):
            return e.value
        if isinstance(e, ast.Name):
            if e.id in st.env:
                return st.env[e.id]
            if e.id in self.fields:
                return self.fields[e.id]
            import re as _re
            g = self.globals.get(e.id, NORET)
            if isinstance(g, (str, int, float, _re.Pattern)) and not isinstance(g, bool):
                return g
            raise Unsupported('name ' + e.id)
        if isinstance(e, ast.Tuple):
            return tuple(self._expr(x, st) for x in e.elts)
        if isinstance(e, ast.BinOp) and type(e.op) in _ARITH:
            return self.arith(_ARITH[type(e.op)], self._expr(e.left, st), self._expr(e.right, st))
        if isinstance(e, ast.UnaryOp):
            v = self._expr(e.operand, st)
            if isinstance(e.op, ast.Not):
                t = self.truth(v, st)
                return (not t) if isinstance(t, bool) else be.not_(t)
            if isinstance(e.op, ast.USub):
                return self.arith('sub', 0, v)
            raise Unsupported('unary ' + ast.dump(e.op))
        if isinstance(e, ast.BoolOp):
            vals = []
            for x in e.values:       # python short-circuit: stop at the first concrete decisive operand
                t = self.truth(self._expr(x, st), st)
                if isinstance(t, bool):
                    if t != isinstance(e.op, ast.And):
                        return t if not vals else (be.and_(*vals, t) if isinstance(e.op, ast.And) else be.or_(*vals, t))
                    continue
                vals.append(t)
            if not vals:
                return isinstance(e.op, ast.And)
            return (be.and_ if isinstance(e.op, ast.And) else be.or_)(*vals)
        if isinstance(e, ast.Compare):
            left, parts = self._expr(e.left, st), []
            for op, right_node in zip(e.ops, e.comparators):
                right = self._expr(right_node, st)
                if isinstance(op, (ast.Is, ast.IsNot)):
                    if not (right is None or isinstance(right, bool)):
                        raise Unsupported('`is` with non-singleton')
                    if right is None and getattr(self.be, 'is_term', lambda _x: False)(left) and _bool_sorted(left):
                        # a Bool term stands for "matched / found or None": `is None` would silently read as False.
                        # (a numeric term is a number, never None: `is None` is False, as python would say)
                        raise Unsupported('`is None` on a symbolic Bool term')
                    r = (left is right) if isinstance(op, ast.Is) else (left is not right)
                elif isinstance(op, (ast.In, ast.NotIn)):
                    r = self.contains(left, right, st)
                    if isinstance(op, ast.NotIn):
                        r = (not r) if isinstance(r, bool) else be.not_(r)
                elif type(op) in _CMP:
                    r = self.compare(_CMP[type(op)], left, right)
                else:
                    raise Unsupported('comparison ' + ast.dump(op))
                parts.append(r)
                left = right
            if any(p is False for p in parts):
                return False
            parts = [p for p in parts if p is not True]
            return True if not parts else (parts[0] if len(parts) == 1 else be.and_(*parts))
        if isinstance(e, ast.IfExp):
            c = self.truth(self._expr(e.test, st), st)
            if isinstance(c, bool):
                return self._expr(e.body if c else e.orelse, st)
            a, b = be.lift(self._expr(e.body, st)), be.lift(self._expr(e.orelse, st))
            return be.ite(c, a, b)
        if isinstance(e, ast.Attribute):
            path = ast.unparse(e)
            if path in self.fields:
                return self.fields[path]
            base = self._expr(e.value, st)
            if hasattr(base, 'sym_getattr'):
                return base.sym_getattr(e.attr)
            raise Unsupported('attribute ' + path)
        if isinstance(e, ast.Subscript):
            obj = self._expr(e.value, st)
            if isinstance(e.slice, ast.Slice):
                if e.slice.step is not None:
                    raise Unsupported('slice step')
                idx = slice(None if e.slice.lower is None else self._expr(e.slice.lower, st),
                            None if e.slice.upper is None else self._expr(e.slice.upper, st))
            else:
                idx = self._expr(e.slice, st)
            if hasattr(obj, 'sym_getitem'):
                return obj.sym_getitem(self, idx)
            if isinstance(obj, (str, tuple, list)) and not self._has_term(idx):
                return obj[idx]
            raise Unsupported('subscript of ' + type(obj).__name__)
        if isinstance(e, ast.JoinedStr):
            return self._fstring(e, st)
        if isinstance(e, ast.Call):
            return self._call(e, st)
        raise Unsupported('expression ' + ast.dump(e)[:90])

    def _has_term(self, idx):
        if isinstance(idx, slice):
            return self.be.is_term(idx.start) or self.be.is_term(idx.stop)
        return self.be.is_term(idx)

    def _fstring(self, e, st):
        parts = []
        for v in e.values:
            if isinstance(v, ast.Constant):
                parts.append(v.value)
                continue
            if v.conversion != -1:
                raise Unsupported('f-string conversion')
            spec = ''
            if v.format_spec is not None:
                if not all(isinstance(x, ast.Constant) for x in v.format_spec.values):
                    raise Unsupported('dynamic format spec')
                spec = ''.join(x.value for x in v.format_spec.values)
            parts.append(self.format(self._expr(v.value, st), spec, st))
        folded = []
        for p in parts:
            if isinstance(p, str) and folded and isinstance(folded[-1], str):
                folded[-1] += p
            elif p != '':
                folded.append(p)
        if not folded:
            return ''
        if len(folded) == 1:
            return folded[0]
        return self.be.join(self, folded)

    def format(self, v, spec, st):
        if isinstance(v, Multi):
            raise Unsupported('nested alternatives')
        if hasattr(v, 'sym_format'):
            return v.sym_format(self, spec, st)
        if self.be.is_term(v):
            return self.be.format(self, st, v, spec)
        if isinstance(v, Fraction):
            v = float(v) if v.denominator != 1 else int(v)
        if isinstance(v, (int, float, str)):
            return format(v, spec)
        raise Unsupported('format of ' + type(v).__name__)

    def _call(self, e, st):
        name = ast.unparse(e.func)
        if name in self.stubs:
            args = [self._expr(a, st) for a in e.args]
            kwargs = {k.arg: self._expr(k.value, st) for k in e.keywords}
            return self.stubs[name](self, st, args, kwargs)
        if name in self.inline:
            raise Unsupported('inlined call not at statement level: ' + name)
        if e.keywords:
            raise Unsupported('keyword arguments in call to ' + name)
        if name == 'isinstance':
            obj = self._expr(e.args[0], st)
            types = e.args[1].elts if isinstance(e.args[1], ast.Tuple) else [e.args[1]]
            return self.be.pytype(obj) in {ast.unparse(t).split('.')[-1] for t in types}
        args = [self._expr(a, st) for a in e.args]
        if isinstance(e.func, ast.Name):
            return self.builtin(name, args, st)
        if isinstance(e.func, ast.Attribute):
            obj = self._expr(e.func.value, st)
            meth = getattr(obj, 'm_' + e.func.attr, None)
            if meth is not None:
                return meth(self, st, *args)
            if isinstance(obj, str) and all(isinstance(a, (str, int)) for a in args):
                return getattr(obj, e.func.attr)(*args)
            import re as _re
            if isinstance(obj, _re.Pattern) and e.func.attr == 'fullmatch' and len(args) == 1 and isinstance(args[0], DecStr):
                # does the pattern accept EVERY canonical decimal text -?(0|[1-9][0-9]*) ? decided for the integer patterns in use
                if obj.pattern in (r'[+-]?[0-9]+', r'[+-]?\d+', r'[-+]?[0-9]+'):
                    return REGEX_MATCH
                raise Unsupported('regex on str(int): ' + obj.pattern)
        raise Unsupported('call ' + name)

    def builtin(self, name, args, st):
        be = self.be
        a0 = args[0] if args else None
        if name in ('int', 'float', 'str', 'len', 'abs', 'bool') and len(args) == 1 and hasattr(a0, 'sym_' + name):
            return getattr(a0, 'sym_' + name)(self, st)
        if name == 'format' and len(args) == 2 and isinstance(args[1], str):
            return self.format(a0, args[1], st)
        if not any(be.is_term(a) for a in args):
            args = [be.lift(a) for a in args]
            if all(isinstance(a, (int, float, Fraction, str)) for a in args):
                return be.fold_call(name, args)
            raise Unsupported(f'{name}() on ' + ', '.join(type(a).__name__ for a in args))
        return be.builtin(self, st, name, [be.lift(a) for a in args])


# ------------------------------------------------------------------------------------------------ z3 Int/Real back end

def _pow10(k):
    return 10 ** k


class Z3Real:
    name = 'z3 Int/Real'

    def __init__(self):
        import z3
        self.z3 = z3
        self.queries = 0
        self.solver_s = 0.0

    # terms
    def is_term(self, v):
        return isinstance(v, self.z3.ExprRef)

    def var(self, name, sort):
        return {'int': self.z3.Int, 'real': self.z3.Real, 'bool': self.z3.Bool}[sort](name)

    def lift(self, v):
        if isinstance(v, float):
            return Fraction(v)       # the exact rational the float denotes
        return v

    def val(self, v):
        z3 = self.z3
        if self.is_term(v):
            return v
        if isinstance(v, bool):
            return z3.BoolVal(v)
        if isinstance(v, int):
            return z3.IntVal(v)
        v = Fraction(v)
        return z3.RealVal(f'{v.numerator}/{v.denominator}')

    def is_int(self, v):
        return (self.is_term(v) and v.sort() == self.z3.IntSort()) or (isinstance(v, int) and not isinstance(v, bool))

    def real(self, v):
        v = self.val(v)
        return self.z3.ToReal(v) if v.sort() == self.z3.IntSort() else v

    def as_bool(self, v):
        if v.sort() == self.z3.BoolSort():
            return v
        return v != 0

    def and_(self, *xs):
        return self.z3.And(*[self.val(x) for x in xs])

    def or_(self, *xs):
        return self.z3.Or(*[self.val(x) for x in xs])

    def not_(self, x):
        return self.z3.Not(self.val(x))

    def ite(self, c, a, b):
        if self.is_int(a) and self.is_int(b):
            return self.z3.If(c, self.val(a), self.val(b))
        return self.z3.If(c, self.real(a), self.real(b))

    def fold(self, op, a, b):
        if op == 'div':
            return Fraction(a) / Fraction(b)
        return {'add': lambda: a + b, 'sub': lambda: a - b, 'mul': lambda: a * b, 'floordiv': lambda: a // b,
                'mod': lambda: a % b}[op]()

    def fold_call(self, name, args):
        if name == 'float':
            return Fraction(args[0]) if not isinstance(args[0], str) else Fraction(float(args[0]))
        if name == 'round':
            return round(*args)
        if name in ('int', 'abs', 'min', 'max', 'divmod', 'str', 'len'):
            return {'int': int, 'abs': abs, 'min': min, 'max': max, 'divmod': divmod, 'str': str, 'len': len}[name](*args)
        raise Unsupported('builtin ' + name)

    def arith(self, op, a, b):
        if op in ('floordiv', 'mod'):
            if not (self.is_int(a) and isinstance(b, int) and b > 0):
                raise Unsupported(f'{op} needs an integer dividend and a positive constant divisor')
            return self.val(a) / b if op == 'floordiv' else self.val(a) % b     # z3 int div/mod == python floor for b > 0
        if op == 'div':
            if isinstance(b, (int, Fraction)) and b == 0:
                raise Unsupported('division by constant zero')
            return self.real(a) / self.real(b)
        if self.is_int(a) and self.is_int(b):
            a, b = self.val(a), self.val(b)
        else:
            a, b = self.real(a), self.real(b)
        return {'add': a + b, 'sub': a - b, 'mul': a * b}[op]

    def cmp(self, op, a, b):
        if not (self.is_int(a) and self.is_int(b)):
            a, b = self.real(a), self.real(b)
        else:
            a, b = self.val(a), self.val(b)
        return {'lt': a < b, 'le': a <= b, 'gt': a > b, 'ge': a >= b, 'eq': a == b, 'ne': a != b}[op]

    def pytype(self, v):
        if hasattr(v, 'pytype'):
            return v.pytype
        if isinstance(v, bool):
            return 'bool'
        if self.is_int(v):
            return 'int'
        if isinstance(v, Fraction) or (self.is_term(v) and v.sort() == self.z3.RealSort()):
            return 'float'
        if isinstance(v, str):
            return 'str'
        return type(v).__name__

    def round_half_even(self, sym, st, x, k):
        """python round(x, k) on a real: q = nearest integer to x*10^k, ties to even; returns the Int term q."""
        z3 = self.z3
        y = z3.simplify(self.real(x) * _pow10(k) if k >= 0 else self.real(x) / _pow10(-k))
        yi = self._as_int(y)
        if yi is not None:
            return yi                     # an integer-valued linear form: nothing to round
        q = sym.new('round', 'int')
        st.assumes += [2 * (y - z3.ToReal(q)) <= 1, 2 * (z3.ToReal(q) - y) <= 1,
                       z3.Implies(z3.Or(2 * (y - z3.ToReal(q)) == 1, 2 * (z3.ToReal(q) - y) == 1), q % 2 == 0)]
        return q

    def _as_int(self, y):
        """Int term equal to the Real term y when y is syntactically integer-valued (sums/products of to_real(int) and
        integer constants), else None."""
        z3 = self.z3
        if z3.is_app_of(y, z3.Z3_OP_TO_REAL):
            return y.arg(0)
        if z3.is_rational_value(y):
            return z3.IntVal(y.numerator_as_long()) if y.denominator_as_long() == 1 else None
        if z3.is_add(y) or z3.is_mul(y) or (z3.is_app_of(y, z3.Z3_OP_UMINUS)) or z3.is_sub(y):
            kids = [self._as_int(ch) for ch in y.children()]
            if any(k is None for k in kids):
                return None
            if z3.is_add(y):
                return z3.Sum(kids)
            if z3.is_mul(y):
                return z3.Product(kids)
            if z3.is_sub(y):
                return kids[0] - z3.Sum(kids[1:]) if len(kids) > 1 else -kids[0]
            return -kids[0]
        return None

    def builtin(self, sym, st, name, args):
        z3 = self.z3
        if name in ('min', 'max') and len(args) == 2:
            a, b = args
            c = self.cmp('le', a, b)
            return self.ite(c, a, b) if name == 'min' else self.ite(c, b, a)
        if name == 'abs' and len(args) == 1:
            return self.ite(self.cmp('ge', args[0], 0), args[0], self.arith('sub', 0, args[0]))
        if name == 'float' and len(args) == 1:
            return self.real(args[0])      # stated stub: conversion to float is exact
        if name == 'int' and len(args) == 1:
            x = args[0]
            if self.is_int(x):
                return x
            return z3.If(x >= 0, z3.ToInt(x), -z3.ToInt(-x))
        if name == 'round' and len(args) in (1, 2):
            if self.is_int(args[0]) and len(args) == 1:
                return args[0]
            k = args[1] if len(args) == 2 else 0
            if not isinstance(k, int):
                raise Unsupported('round() with symbolic ndigits')
            q = self.round_half_even(sym, st, args[0], k)
            if len(args) == 1:
                return q
            return z3.ToReal(q) / _pow10(k) if k >= 0 else z3.ToReal(q) * _pow10(-k)
        if name == 'divmod' and len(args) == 2:
            return (self.arith('floordiv', *args), self.arith('mod', *args))
        if name == 'str' and len(args) == 1 and self.is_int(args[0]):
            return DecStr(args[0])
        raise Unsupported('builtin ' + name)

    def format(self, sym, st, v, spec):
        m = re.fullmatch(r'\.(\d+)f', spec)
        if m and not self.is_int(v):
            return real_to_numstr(sym, st, v, int(m.group(1)))
        if spec == '' and self.is_int(v):
            return DecStr(v)
        raise Unsupported(f'format spec {spec!r}')

    def join(self, sym, parts):
        if len(parts) == 3 and isinstance(parts[0], Head) and parts[1] == '.' and isinstance(parts[2], Tail):
            return NumStr.combine(sym, parts[0], parts[2])
        return Pieces(parts)

    # solving
    def feasible(self, conds, timeout_ms=20000):
        r, _ = self.check(conds, timeout_ms)
        return r != 'unsat'

    def check(self, conds, timeout_ms=60000):
        s = self.z3.Solver()
        s.set('timeout', int(timeout_ms))
        s.add(*[self.val(c) for c in conds])
        t0 = time.time()
        r = str(s.check())
        self.solver_s += time.time() - t0
        self.queries += 1
        return r, (s.model() if r == 'sat' else None)

    def model_value(self, model, term):
        """Fraction / int / bool value of a term in a model (model completion on)."""
        v = model.eval(self.val(term), model_completion=True)
        z3 = self.z3
        if z3.is_true(v):
            return True
        if z3.is_false(v):
            return False
        if z3.is_int_value(v):
            return v.as_long()
        if z3.is_rational_value(v):
            return Fraction(v.numerator_as_long(), v.denominator_as_long())
        raise Unsupported('model value ' + str(v))

    def evaluate(self, term, subst: dict):
        """Value of `term` after substituting constants for variables (translator validation: no solver search involved)."""
        z3 = self.z3
        if not self.is_term(term):
            return term
        pairs = [(var, self.val(val) if not (var.sort() == z3.RealSort() and isinstance(val, int)) else z3.RealVal(val))
                 for var, val in subst.items()]
        v = z3.simplify(z3.substitute(term, *pairs))
        if z3.is_true(v):
            return True
        if z3.is_false(v):
            return False
        if z3.is_int_value(v):
            return v.as_long()
        if z3.is_rational_value(v):
            return Fraction(v.numerator_as_long(), v.denominator_as_long())
        return v     # not fully determined by the substitution


class FPReal(Z3Real):
    """Model of IEEE-754 binary64 round-to-nearest arithmetic over the reals/integers (an OVER-approximation of what the
    hardware does; linear as long as the kernel multiplies/divides by constants). For every float operation with exact
    result x the model introduces the result r with
      * |r - x| <= |x| * 2^-53 + 2^-1075                                   (standard model; no overflow assumed), and
      * for every exponent e of a window given at query time:  2^e <= |x| < 2^(e+1)  =>  r = j * 2^(e-52) for an integer j
        and |r - x| <= 2^(e-53)                                             (r is the nearest point of the binade's grid;
                                                                            which neighbour wins a tie is left open).
    `unsat` in this model is a proof for all binary64 inputs in the real interval; `sat` means nothing by itself (the
    obligation then falls back to the exact QF_BVFP encoding). python ints are z3 Ints, floats z3 Reals."""
    name = 'z3 Int/Real, binary64 rounding model (nearest grid point per binade; |err| <= 2^-53 |x|)'
    U = Fraction(1, 2 ** 53)
    D = Fraction(1, 2 ** 1075)

    def __init__(self):
        super().__init__()
        self.roundings = []   # [(exact term, result var, grid integer var)]
        self.requires = []    # exactness requirements of the encoding (ints converted to float are below 2^53)
        self._n = 0

    def _rounded(self, exact):
        self._n += 1
        r, j = self.z3.Real(f'fl_{self._n}'), self.z3.Int(f'grid_{self._n}')
        self.roundings.append((exact, r, j))
        return r

    def rounding_constraints(self, emin=None, emax=None):
        z3, out = self.z3, []
        for x, r, j in self.roundings:
            ax = z3.If(x >= 0, x, -x)
            err = r - x
            bound = ax * self.val(self.U) + self.val(self.D)
            out += [err <= bound, -err <= bound]
            if emin is not None:
                for e in range(emin, emax + 1):
                    g = Fraction(2) ** (e - 52)
                    out.append(z3.Implies(z3.And(ax >= self.val(Fraction(2) ** e), ax < self.val(Fraction(2) ** (e + 1))),
                                          z3.And(r == z3.ToReal(j) * self.val(g), 2 * err <= self.val(g), -2 * err <= self.val(g))))
        return out

    def _exact_int(self, v):
        if self.is_term(v):
            self.requires.append(self.z3.And(v <= 2 ** 53, v >= -2 ** 53))
        elif abs(v) > 2 ** 53:
            raise Unsupported('integer constant beyond 2^53 converted to float')

    def fold(self, op, a, b):
        if isinstance(a, Fraction) or isinstance(b, Fraction) or op == 'div':
            r = {'add': lambda x, y: x + y, 'sub': lambda x, y: x - y, 'mul': lambda x, y: x * y,
                 'div': lambda x, y: x / y}.get(op)
            if r is None:
                raise Unsupported(f'float {op}')
            return Fraction(r(float(a) if isinstance(a, Fraction) else a, float(b) if isinstance(b, Fraction) else b))
        return super().fold(op, a, b)

    def arith(self, op, a, b):
        if op in ('floordiv', 'mod') or (self.is_int(a) and self.is_int(b) and op != 'div'):
            return super().arith(op, a, b)
        for x in (a, b):
            if self.is_int(x):
                self._exact_int(x)
        return self._rounded(super().arith(op, a, b))

    def builtin(self, sym, st, name, args):
        if name == 'float' and len(args) == 1 and self.is_int(args[0]):
            self._exact_int(args[0])
        return super().builtin(sym, st, name, args)


class Pieces:
    """Concatenation of string pieces (constants, DecStr, FracDigits ...) - an output that is only inspected by the oracle."""
    pytype = 'str'

    def __init__(self, parts):
        self.parts = list(parts)


# ---- plain-notation decimal strings with CONCRETE lengths and symbolic digits (used for DecimalConverter.to_xml)

class SymChar:
    def __init__(self, digit):
        self.digit = digit

    def sym_eq(self, sym, other):
        if isinstance(other, str) and len(other) == 1:
            if other.isdigit():
                return sym.be.cmp('eq', self.digit, int(other))
            return False
        raise Unsupported('char comparison')


def _shr10(sym, base, k):
    """base // 10^k (k concrete >= 0)."""
    return base if k == 0 else sym.arith('floordiv', base, _pow10(k))


class Head:
    """Text before the '.', sign included: `neg` bool, `n` digits (concrete); the digits are `base // 10^shift`."""
    pytype = 'str'

    def __init__(self, neg, n, base, shift=0, zero=None):
        self.neg, self.n, self.base, self.shift, self.zero = neg, n, base, shift, zero     # zero: is the text '0'? (None: open)

    def ip(self, sym):
        return _shr10(sym, self.base, self.shift)

    def sym_len(self, sym, st):
        return self.n + (1 if self.neg else 0)

    def sym_truth(self, sym):
        return self.n > 0 or self.neg

    def sym_format(self, sym, spec, st):
        if spec == '':
            return self
        raise Unsupported('format spec on Head')

    def sym_contains(self, sym, item):
        if isinstance(item, str) and len(item) == 1 and not item.isdigit() and item not in '-+':
            return False
        raise Unsupported(f'{item!r} in Head')

    def to_numstr(self):
        return NumStr(self.neg, self.n, 0, False, self.base, self.shift, self.zero)

    def m_lstrip(self, sym, st, chars=None):
        if chars is None:
            return self
        h = self
        if '-' in chars and h.neg:
            h = Head(False, h.n, h.base, h.shift, h.zero)
        if '0' in chars and not h.neg and h.n == 1:
            ip = h.ip(sym)
            if h.zero is not None:
                return Head(False, 0, 0) if h.zero else h
            if sym.be.is_term(ip):
                return Multi([(sym.be.cmp('eq', ip, 0), Head(False, 0, 0)), (sym.be.cmp('ne', ip, 0), h)])
            if ip == 0:
                return Head(False, 0, 0)
        return h      # digit strings of >= 2 digits have no leading zero (NumStr invariant)

    def m_strip(self, sym, st, chars=None):
        return self.m_lstrip(sym, st, chars)

    def m_replace(self, sym, st, old, new):
        if old == '-' and new == '':
            return Head(False, self.n, self.base, self.shift)
        raise Unsupported('Head.replace')


class Tail:
    """Text after the '.': `n` digits (concrete) = (base // 10^shift) mod 10^n."""
    pytype = 'str'

    def __init__(self, n, base, shift=0):
        self.n, self.base, self.shift = n, base, shift

    def fv(self, sym):
        return sym.arith('mod', _shr10(sym, self.base, self.shift), _pow10(self.n)) if self.n else 0

    def sym_len(self, sym, st):
        return self.n

    def sym_truth(self, sym):
        return self.n > 0

    def sym_format(self, sym, spec, st):
        if spec == '':
            return self
        raise Unsupported('format spec on Tail')

    def sym_getitem(self, sym, idx):
        if isinstance(idx, slice) and idx.start is None and isinstance(idx.stop, int):
            k = idx.stop
            new = min(k, self.n) if k >= 0 else max(self.n + k, 0)
            return self if new == self.n else Tail(new, self.base, self.shift + (self.n - new))
        raise Unsupported('Tail subscript')


class NumStr:
    """sign, `int_len` integer digits, optional '.', `frac_len` fraction digits (all concrete); all digits read as one integer
    are `base // 10^shift` (base: Int term or int).

    Invariant kept by the constructors: the integer part has no superfluous leading zero (it is '0' or starts with 1-9)."""
    pytype = 'str'

    def __init__(self, neg, int_len, frac_len, has_point, base, shift=0, int_zero=None):
        self.neg, self.int_len, self.frac_len, self.has_point, self.base, self.shift = neg, int_len, frac_len, has_point, base, shift
        self.int_zero = int_zero          # is the integer part the single digit '0'? True / False / None (not known)

    def scaled(self, sym):
        return _shr10(sym, self.base, self.shift)

    @staticmethod
    def combine(sym, head, tail):
        if head.base is tail.base and head.shift == tail.shift + tail.n:
            return NumStr(head.neg, head.n, tail.n, True, head.base, tail.shift, head.zero)  # same digits, possibly fewer
        return NumStr(head.neg, head.n, tail.n, True,
                      sym.arith('add', sym.arith('mul', head.ip(sym), _pow10(tail.n)), tail.fv(sym)))

    def value(self, sym):
        v = sym.be.real(self.scaled(sym)) / _pow10(self.frac_len)
        return -v if self.neg else v

    def sym_contains(self, sym, item):
        if item == '.':
            return self.has_point
        if isinstance(item, str) and len(item) == 1 and not item.isdigit() and item not in '-+':
            return False
        raise Unsupported(f'{item!r} in NumStr')

    def sym_truth(self, sym):
        return True

    def sym_len(self, sym, st):
        return self.int_len + self.frac_len + (1 if self.neg else 0) + (1 if self.has_point else 0)

    def m_split(self, sym, st, sep):
        if sep != '.' or not self.has_point:
            raise Unsupported('NumStr.split')
        return (Head(self.neg, self.int_len, self.base, self.shift + self.frac_len, self.int_zero),
                Tail(self.frac_len, self.base, self.shift))

    def sym_getitem(self, sym, idx):
        if idx == -1:
            if self.has_point and self.frac_len == 0:
                return '.'
            return SymChar(sym.arith('mod', self.scaled(sym), 10))
        if isinstance(idx, slice) and idx.start is None and idx.stop == -1:
            if self.has_point and self.frac_len == 0:
                return NumStr(self.neg, self.int_len, 0, False, self.base, self.shift, self.int_zero)
            if self.frac_len > 0:
                return NumStr(self.neg, self.int_len, self.frac_len - 1, True, self.base, self.shift + 1, self.int_zero)
            raise Unsupported('dropping an integer digit')
        raise Unsupported('NumStr subscript')

    def sym_eq(self, sym, other):
        raise Unsupported('NumStr comparison')

    def concrete(self, sym, evaluate):
        """The actual string for concrete digit values; `evaluate(term)` gives the value of a term (translator validation)."""
        sc = self.scaled(sym)
        sc = evaluate(sc) if not isinstance(sc, int) else sc
        if not isinstance(sc, int):
            raise Unsupported('NumStr not determined')
        digits = str(sc).zfill(self.int_len + self.frac_len)
        s = digits[:len(digits) - self.frac_len] if self.frac_len else digits
        if self.has_point:
            s += '.' + (digits[len(digits) - self.frac_len:] if self.frac_len else '')
        return ('-' if self.neg else '') + s


class SciStr:
    """str(Decimal) in scientific notation (only ever tested for 'E' / '.' or returned as is)."""
    pytype = 'str'

    def __init__(self, dec):
        self.dec = dec

    def sym_contains(self, sym, item):
        if item == 'E':
            return True
        if item == 'e':
            return False
        if item == '.':
            return self.dec.nd > 1
        raise Unsupported(f'{item!r} in SciStr')


class SymDecimal:
    """decimal.Decimal(sign, coefficient c, exponent e): `neg`, number of coefficient digits `nd` and `e` are CONCRETE
    (the obligation case-splits over them), c is an Int term with 10^(nd-1) <= c < 10^nd (nd == 1: 0 <= c <= 9)."""
    pytype = 'Decimal'

    def __init__(self, neg, c, nd, e):
        self.neg, self.c, self.nd, self.e = neg, c, nd, e

    def domain(self, be):
        lo = 0 if self.nd == 1 else _pow10(self.nd - 1)
        return [be.cmp('ge', self.c, lo), be.cmp('lt', self.c, _pow10(self.nd))]

    def value(self, be):
        v = be.real(self.c) * _pow10(self.e) if self.e >= 0 else be.real(self.c) / _pow10(-self.e)
        return -v if self.neg else v

    def plain(self, sym):
        """The digits in positional notation (what format(d, 'f') returns; also str(d) when that is not scientific)."""
        nd, e = self.nd, self.e
        if e >= 0:
            # python: format(Decimal('0E+2'), 'f') == '0' only for coefficient 0 ... the obligation excludes c == 0 with e > 0
            return NumStr(self.neg, nd + e, 0, False, sym.arith('mul', self.c, _pow10(e)))
        if nd + e > 0:
            return NumStr(self.neg, nd + e, -e, True, self.c, 0, False)     # nd >= 2 here: the leading digit is not 0
        return NumStr(self.neg, 1, -e, True, self.c, 0, True)

    def is_sci(self):
        """Documented rule of Decimal.__str__: scientific iff exponent > 0 or adjusted exponent < -6."""
        return self.e > 0 or (self.e + self.nd - 1) < -6

    def sym_str(self, sym, st):
        return SciStr(self) if self.is_sci() else self.plain(sym)

    def sym_float(self, sym, st):
        """float(Decimal): the nearest binary64 number - modelled as v + err with |err| <= |v| * 2^-53, and err == 0 when v is
        an integer below 2^53 (over-approximation: which values are exactly representable is otherwise left open)."""
        be, z3 = sym.be, sym.be.z3
        v = self.value(be)
        if self.e >= 0 and (_pow10(self.nd) - 1) * 5 ** self.e < 2 ** 53:
            return v                      # c * 10^e = (c * 5^e) * 2^e with c * 5^e < 2^53: exactly representable
        err = sym.new('float_err', 'real')
        av = -v if self.neg else v
        st.assumes += [err <= av * be.val(Fraction(1, 2 ** 53)), -err <= av * be.val(Fraction(1, 2 ** 53))]
        if self.e >= 0:
            # c * 10^e = (c * 5^e) * 2^e is exactly representable when c * 5^e < 2^53
            st.assumes.append(z3.Implies(be.val(self.c) * (5 ** self.e) < 2 ** 53, err == 0))
        st.notes.append('float(Decimal) modelled as nearest-double over-approximation')
        return v + err

    def sym_format(self, sym, spec, st):
        if spec == 'f':
            return self.plain(sym)
        if spec == '':
            return self.sym_str(sym, st)
        raise Unsupported(f'format(Decimal, {spec!r})')


def real_to_numstr(sym, st, x, k, max_int_digits=40):
    """f'{x:.kf}' for a real term x: alternatives over sign and number of integer digits (lengths stay concrete).
    The feasible digit counts are found from a model and extended in both directions until infeasible."""
    be, z3 = sym.be, sym.be.z3
    q = be.round_half_even(sym, st, x, k)
    mag = z3.If(q >= 0, q, -q)
    base = st.conds + st.assumes
    alts = []

    def cond_for(neg, n):
        lo = 0 if n == 1 else _pow10(n - 1 + k)
        return z3.And((q < 0) if neg else (q >= 0), mag >= lo, mag < _pow10(n + k))

    for neg in (False, True):
        r, m = be.check(base + [(q < 0) if neg else (q >= 0)])
        if r == 'unknown':
            raise Unsupported('solver gave up while enumerating format alternatives')
        if r == 'unsat':
            continue
        n0 = max(1, len(str(abs(be.model_value(m, q)))) - k)
        if n0 > max_int_digits:
            raise Unsupported('formatted number longer than the supported bound')
        alts.append((cond_for(neg, n0), NumStr(neg, n0, k, k > 0, mag)))
        for step in (1, -1):
            n = n0 + step
            while 1 <= n <= max_int_digits and be.feasible(base + [cond_for(neg, n)]):
                alts.append((cond_for(neg, n), NumStr(neg, n, k, k > 0, mag)))
                n += step
            if n > max_int_digits:
                raise Unsupported('formatted number longer than the supported bound')
    if not alts:
        raise Unsupported('no feasible formatting alternative')
    st.notes.append("format(float, '.%df'): the sign of a negative-zero result is not modelled" % k)
    return Multi(alts)


# ------------------------------------------------------------------------------------------------ FP64 / cvc5 back end

def f64_lit(x: float) -> str:
    b = format(struct.unpack('>Q', struct.pack('>d', float(x)))[0], '064b')
    return f'(fp #b{b[0]} #b{b[1:12]} #b{b[12:]})'


def bv64_lit(n: int) -> str:
    return '#x' + format(n & (2 ** 64 - 1), '016x')


class T:
    """SMT-LIB term with a sort tag: 'F' Float64, 'I' signed BitVec 64 (a python int), 'B' Bool."""
    __slots__ = ('sort', 's')

    def __init__(self, sort, s):
        self.sort, self.s = sort, s

    def __repr__(self):
        return self.s


class FP64:
    name = 'cvc5 QF_BVFP (binary64, RNE)'
    F = '(_ FloatingPoint 11 53)'

    def __init__(self):
        self.decls = []
        self.requires = []        # side conditions under which the encoding equals python (no bit-vector overflow ...)

    def is_term(self, v):
        return isinstance(v, T)

    def var(self, name, sort):
        s = {'float': 'F', 'int': 'I', 'bool': 'B'}[sort]
        self.decls.append(f'(declare-const {name} {self.F if s == "F" else "(_ BitVec 64)" if s == "I" else "Bool"})')
        return T(s, name)

    def lift(self, v):
        return v

    def val(self, v, want=None):
        if isinstance(v, T):
            if want == 'F' and v.sort == 'I':
                return self.int_to_float(v)
            return v
        if isinstance(v, bool):
            return T('B', 'true' if v else 'false')
        if isinstance(v, int):
            if want == 'F':
                if float(v) != v:
                    raise Unsupported('integer constant not representable in binary64')
                return T('F', f64_lit(float(v)))
            return T('I', bv64_lit(v))
        if isinstance(v, float):
            return T('F', f64_lit(v))
        raise Unsupported('constant ' + repr(v))

    def int_to_float(self, v):
        # python converts exactly-or-correctly-rounded; equal to RNE conversion of the signed bit-vector
        return T('F', f'((_ to_fp 11 53) RNE {v.s})')

    def as_bool(self, v):
        if v.sort == 'B':
            return v
        if v.sort == 'I':
            return T('B', f'(not (= {v.s} {bv64_lit(0)}))')
        return T('B', f'(not (fp.isZero {v.s}))')

    def and_(self, *xs):
        return T('B', '(and ' + ' '.join(self.val(x).s for x in xs) + ')') if len(xs) > 1 else self.val(xs[0])

    def or_(self, *xs):
        return T('B', '(or ' + ' '.join(self.val(x).s for x in xs) + ')') if len(xs) > 1 else self.val(xs[0])

    def not_(self, x):
        return T('B', f'(not {self.val(x).s})')

    def ite(self, c, a, b):
        want = 'F' if 'F' in (self._sort(a), self._sort(b)) else 'I'
        a, b = self.val(a, want), self.val(b, want)
        return T(want, f'(ite {c.s} {a.s} {b.s})')

    def _sort(self, v):
        if isinstance(v, T):
            return v.sort
        return 'F' if isinstance(v, float) else 'I'

    def fold(self, op, a, b):           # concrete python semantics (IEEE for floats)
        return {'add': lambda: a + b, 'sub': lambda: a - b, 'mul': lambda: a * b, 'div': lambda: a / b,
                'floordiv': lambda: a // b, 'mod': lambda: a % b}[op]()

    def fold_call(self, name, args):
        return {'int': int, 'float': float, 'abs': abs, 'min': min, 'max': max, 'round': round, 'str': str,
                'len': len, 'divmod': divmod}[name](*args)

    def arith(self, op, a, b):
        sa, sb = self._sort(a), self._sort(b)
        if sa == 'I' and sb == 'I' and op != 'div':
            a, b = self.val(a), self.val(b)
            if op in ('add', 'sub', 'mul'):
                fn = {'add': 'bvadd', 'sub': 'bvsub', 'mul': 'bvmul'}[op]
                ov = {'add': 'bvsaddo', 'sub': 'bvssubo', 'mul': 'bvsmulo'}[op]
                self.requires.append(T('B', f'(not ({ov} {a.s} {b.s}))'))
                return T('I', f'({fn} {a.s} {b.s})')
            raise Unsupported(f'integer {op} in FP64 mode')
        if op == 'div' and sa == 'I' and sb == 'I':
            # int / int: python rounds the exact quotient correctly; equal to fp.div of the converted operands when both
            # are exactly representable (|x| <= 2^53) - recorded as a requirement
            for x in (a, b):
                if isinstance(x, T):
                    self.requires.append(T('B', f'(and (bvsle {x.s} {bv64_lit(2 ** 53)}) (bvsge {x.s} {bv64_lit(-2 ** 53)}))'))
                elif abs(x) > 2 ** 53:
                    raise Unsupported('integer constant beyond 2^53 in true division')
        if op not in ('add', 'sub', 'mul', 'div'):
            raise Unsupported(f'float {op}')
        for x, s in ((a, sa), (b, sb)):
            if isinstance(x, T) and s == 'I' and op != 'div':
                # float op int: python converts the int with correct rounding (exact below 2^53)
                self.requires.append(T('B', f'(and (bvsle {x.s} {bv64_lit(2 ** 53)}) (bvsge {x.s} {bv64_lit(-2 ** 53)}))'))
        a, b = self.val(a, 'F'), self.val(b, 'F')
        return T('F', f'(fp.{op} RNE {a.s} {b.s})')

    def cmp(self, op, a, b):
        sa, sb = self._sort(a), self._sort(b)
        if sa == 'I' and sb == 'I':
            a, b = self.val(a), self.val(b)
            if op in ('eq', 'ne'):
                t = f'(= {a.s} {b.s})'
                return T('B', t if op == 'eq' else f'(not {t})')
            return T('B', f'({ {"lt": "bvslt", "le": "bvsle", "gt": "bvsgt", "ge": "bvsge"}[op]} {a.s} {b.s})')
        a, b = self.val(a, 'F'), self.val(b, 'F')
        if op == 'ne':
            return T('B', f'(not (fp.eq {a.s} {b.s}))')
        return T('B', f'(fp.{ {"lt": "lt", "le": "leq", "gt": "gt", "ge": "geq", "eq": "eq"}[op]} {a.s} {b.s})')

    def pytype(self, v):
        if hasattr(v, 'pytype'):
            return v.pytype
        if isinstance(v, T):
            return {'F': 'float', 'I': 'int', 'B': 'bool'}[v.sort]
        return type(v).__name__

    def _to_int(self, x, mode):
        # defined only for |x| < 2^63: recorded as a requirement
        lim = f64_lit(2.0 ** 62)
        self.requires.append(T('B', f'(and (fp.lt {x.s} {lim}) (fp.gt {x.s} (fp.neg {lim})))'))
        return T('I', f'((_ fp.to_sbv 64) {mode} {x.s})')

    def builtin(self, sym, st, name, args):
        a = args[0]
        if name == 'int' and len(args) == 1:
            return a if self._sort(a) == 'I' else self._to_int(a, 'RTZ')      # python int(float) truncates
        if name == 'round' and len(args) == 1:
            return a if self._sort(a) == 'I' else self._to_int(a, 'RNE')      # python round(float): ties to even, exact
        if name == 'float' and len(args) == 1:
            if self._sort(a) == 'I':
                self.requires.append(T('B', f'(and (bvsle {a.s} {bv64_lit(2 ** 53)}) (bvsge {a.s} {bv64_lit(-2 ** 53)}))'))
            return self.val(a, 'F')
        if name == 'abs' and len(args) == 1 and self._sort(a) == 'F':
            return T('F', f'(fp.abs {a.s})')
        if name == 'str' and len(args) == 1 and self._sort(a) == 'I':
            return DecStr(a)
        if name in ('min', 'max') and len(args) == 2:
            c = self.cmp('le', args[0], args[1])     # python: min(a, b) = a if a <= b else b  (b < a is tested; no NaN here)
            return self.ite(c, args[0], args[1]) if name == 'min' else self.ite(c, args[1], args[0])
        raise Unsupported(f'builtin {name} in FP64 mode')

    def exact_diff_ge(self, a, b, bound: Fraction):
        """Bool term: the EXACT real difference a - b of two Float64 terms is >= `bound` (a positive rational that need not be
        representable). Knuth's TwoSum gives s + e == a - b exactly (s = RNE(a - b)); with c_lo < bound <= c_hi the doubles
        bracketing the bound:  a - b >= bound  <=>  s > c_hi  or  (s == c_hi and e >= up(bound - c_hi))  or
        (s == c_lo and e >= up(bound - c_lo)),  up(x) = smallest double >= x (e is a double, so the comparison is exact)."""
        import math

        def up(fr):
            f = float(fr)
            return f if Fraction(f) >= fr else math.nextafter(f, math.inf)
        f = float(bound)
        c_hi = f if Fraction(f) >= bound else math.nextafter(f, math.inf)
        c_lo = c_hi if Fraction(c_hi) == bound else math.nextafter(c_hi, -math.inf)
        a, b = self.val(a, 'F').s, self.val(b, 'F').s
        nb = f'(fp.neg {b})'
        s_ = f'(fp.add RNE {a} {nb})'
        a1 = f'(fp.sub RNE {s_} {nb})'
        b1 = f'(fp.sub RNE {s_} {a1})'
        e_ = f'(fp.add RNE (fp.sub RNE {a} {a1}) (fp.sub RNE {nb} {b1}))'
        hi, lo = f64_lit(c_hi), f64_lit(c_lo)
        parts = [f'(fp.gt {s_} {hi})', f'(and (fp.eq {s_} {hi}) (fp.geq {e_} {f64_lit(up(bound - Fraction(c_hi)))}))']
        if c_lo != c_hi:
            parts.append(f'(and (fp.eq {s_} {lo}) (fp.geq {e_} {f64_lit(up(bound - Fraction(c_lo)))}))')
        return T('B', '(or ' + ' '.join(parts) + ')')

    def format(self, sym, st, v, spec):
        if spec == '' and v.sort == 'I':
            return DecStr(v)
        raise Unsupported(f'format spec {spec!r} in FP64 mode')

    def join(self, sym, parts):
        return Pieces(parts)

    def feasible(self, conds):
        return True

    def script(self, assertions, get_values=(), defs=()):
        lines = ['(set-logic QF_BVFP)', '(set-option :produce-models true)'] + self.decls + list(defs)
        lines += [f'(assert {self.val(a).s})' for a in assertions]
        lines.append('(check-sat)')
        if get_values:
            lines.append('(get-value (' + ' '.join(self.val(g).s for g in get_values) + '))')
        return '\n'.join(lines) + '\n'


_FPV = re.compile(r'\(fp #b([01]) #b([01]{11}) #b([01]{52})\)')
_BVV = re.compile(r'#b([01]{64})|#x([0-9a-fA-F]{16})')


def parse_values(out: str, n: int):
    """Values printed by (get-value ...) for Float64 / BitVec64 / Bool terms, in order; python floats / signed ints / bools."""
    vals = []
    body = out[out.find('(('):] if '((' in out else ''
    # each entry is "(term value)"; the value is the LAST literal of the entry: scan balanced entries
    depth, start, entries = 0, None, []
    for i, ch in enumerate(body):
        if ch == '(':
            depth += 1
            if depth == 2:
                start = i
        elif ch == ')':
            if depth == 2 and start is not None:
                entries.append(body[start:i + 1])
                start = None
            depth -= 1
            if depth == 0:
                break
    for ent in entries[:n]:
        m = list(_FPV.finditer(ent))
        if m and ent.rstrip().endswith(m[-1].group(0) + ')'):
            bits = m[-1].group(1) + m[-1].group(2) + m[-1].group(3)
            vals.append(struct.unpack('>d', struct.pack('>Q', int(bits, 2)))[0])
            continue
        m = list(_BVV.finditer(ent))
        if m and ent.rstrip().endswith(m[-1].group(0) + ')'):
            g = m[-1]
            u = int(g.group(1), 2) if g.group(1) else int(g.group(2), 16)
            vals.append(u - 2 ** 64 if u >= 2 ** 63 else u)
            continue
        if ent.rstrip().endswith('true)'):
            vals.append(True)
        elif ent.rstrip().endswith('false)'):
            vals.append(False)
        else:
            vals.append(None)
    return vals


def cvc5_start(script: str, tlimit_s: float, tag='q'):
    """Start the cvc5 binary on a temp .smt2 file; returns (Popen, path, t0)."""
    d = os.environ.get('VERIF_TMP') or tempfile.gettempdir()
    fd, path = tempfile.mkstemp(prefix=f'pysym_{tag}_', suffix='.smt2', dir=d)
    with os.fdopen(fd, 'w') as f:
        f.write(script)
    p = subprocess.Popen([CVC5, '--lang=smt2', f'--tlimit={int(tlimit_s * 1000)}', path], stdout=subprocess.PIPE,
                         stderr=subprocess.PIPE, text=True)
    return p, path, time.time()


def cvc5_result(p, path, t0, out=None, err=None, nvalues=0):
    if out is None:
        out, err = p.communicate()
    try:
        os.unlink(path)
    except OSError:
        pass
    lines = [ln.strip() for ln in out.splitlines() if ln.strip()]
    status = 'unknown'
    benign = '(error "Cannot get value unless after a SAT or UNKNOWN response.")'      # get-value after unsat
    if '(error' in out.replace(benign, '') or '(error' in (err or ''):
        status = 'error'
    elif lines and lines[0] in ('sat', 'unsat', 'unknown'):
        status = lines[0]
    elif p.returncode not in (0, None):
        status = 'unknown'       # timeout / resource out: cvc5 prints e.g. "cvc5 interrupted by timeout."
    res = {'status': status, 'wall_s': round(time.time() - t0, 2), 'raw': (out + (err or ''))[-400:]}
    if status == 'sat' and nvalues:
        res['values'] = parse_values(out, nvalues)
    return res


def cvc5_run(script: str, tlimit_s: float, nvalues=0, tag='q'):
    p, path, t0 = cvc5_start(script, tlimit_s, tag)
    try:
        out, err = p.communicate(timeout=tlimit_s + 10)
    except subprocess.TimeoutExpired:
        p.kill()
        out, err = p.communicate()
        r = cvc5_result(p, path, t0, out, err, 0)
        r['status'] = 'unknown'
        return r
    return cvc5_result(p, path, t0, out, err, nvalues)


def cvc5_parallel(jobs, nproc, deadline, stop_on_sat=True):
    """jobs: [(key, script, nvalues)] -> {key: result}; runs <= nproc cvc5 processes at a time until `deadline` (epoch s).
    With stop_on_sat the remaining processes are killed as soon as one query is sat (results: status 'skipped')."""
    pending, running, results = list(jobs), {}, {}
    stop = False
    while pending or running:
        while pending and len(running) < nproc and not stop:
            key, script, nv = pending.pop(0)
            left = deadline - time.time()
            if left <= 1:
                results[key] = {'status': 'unknown', 'wall_s': 0, 'raw': 'not started: budget exhausted'}
                continue
            running[key] = cvc5_start(script, left, tag=str(key)) + (nv,)
        if stop:
            for key, _, _ in pending:
                results[key] = {'status': 'skipped', 'wall_s': 0}
            pending = []
        done = [k for k, (p, *_rest) in running.items() if p.poll() is not None]
        for k in done:
            p, path, t0, nv = running.pop(k)
            results[k] = cvc5_result(p, path, t0, nvalues=nv)
            if results[k]['status'] == 'sat' and stop_on_sat:
                stop = True
        if stop and running:
            for k, (p, path, t0, nv) in list(running.items()):
                p.kill()
                p.communicate()
                try:
                    os.unlink(path)
                except OSError:
                    pass
                results[k] = {'status': 'skipped', 'wall_s': round(time.time() - t0, 2)}
            running = {}
        if time.time() > deadline + 5 and running:
            for k, (p, path, t0, nv) in list(running.items()):
                p.kill()
                p.communicate()
                try:
                    os.unlink(path)
                except OSError:
                    pass
                results[k] = {'status': 'unknown', 'wall_s': round(time.time() - t0, 2), 'raw': 'killed at deadline'}
            running = {}
        if not done:
            time.sleep(0.05)
    return results

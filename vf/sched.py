"""E3 'sched': event templates recorded from the REAL code + SMT (z3 Int order variables) over their interleavings + gated replay.

A thread's behaviour is obtained by running the real code once, single-threaded, under a recorder:
  * locks (mdib.mdib_lock, mdib._tr_lock, provider._transaction_id_lock, ...) are wrapped by RecLock (re-entrancy collapsed),
  * the MDIB instance's class is swapped for a recording subclass that logs reads / writes of `mdib_version` and accesses to
    the tables (`descriptions`, `states`, `context_states`),
  * arbitrary extra events (e.g. send(report)) are logged through `Recorder.event`.
The SMT problem: one order variable per event; program order; lock mutual exclusion (for two critical sections on one lock in
different threads: rel1 < acq2 or rel2 < acq1); the negated property as a constraint on order variables.
`unsat` => no interleaving of the recorded events at this granularity violates; `sat` => schedule, which is REPLAYED with real
threads that are gated at every instrumented event so that exactly the model's order happens.
"""
from __future__ import annotations

import threading
import time

import z3


class TaintedInt(int):
    """An int that remembers which recorded read event produced it (dynamic taint: survives being passed around and stored,
    not arithmetic). Lets an obligation tell WHICH read of mdib_version ended up as the label of a result."""

    def __new__(cls, value, src):
        obj = super().__new__(cls, value)
        obj.src = src
        return obj


class Recorder:
    def __init__(self):
        self.taint = False      # record mode: reads of watched int variables return TaintedInt(value, index of the read event)
        self.events = []        # recording mode: list of (kind, what)
        self.mode = 'off'       # 'off' | 'record' | 'replay'
        self._tl = threading.local()
        # replay
        self.schedule = []      # list of (label, idx) in the order the model chose
        self._pos = 0
        self._cv = threading.Condition()
        self._idx = {}          # label -> next event index (after compression)
        self._last = {}         # label -> last (kind, what)
        self.failed = None
        self.replay_log = []

    # ---- labels
    def set_label(self, label):
        self._tl.label = label

    def label(self):
        return getattr(self._tl, 'label', None)

    # ---- the hook every instrumented operation calls
    def event(self, kind, what):
        if self.mode == 'record':
            ev = (kind, what)
            if not self.events or self.events[-1] != ev:      # compress consecutive duplicates
                self.events.append(ev)
        elif self.mode == 'replay':
            lab = self.label()
            if lab is None:
                return
            ev = (kind, what)
            if self._last.get(lab) == ev:
                return
            self._last[lab] = ev
            idx = self._idx.get(lab, 0)
            self._idx[lab] = idx + 1
            self._gate(lab, idx, ev)

    def _gate(self, lab, idx, ev):
        deadline = time.time() + 20
        with self._cv:
            while True:
                if self.failed:
                    raise RuntimeError('replay aborted: ' + self.failed)
                if self._pos < len(self.schedule) and self.schedule[self._pos] == (lab, idx):
                    self._pos += 1
                    self.replay_log.append((lab, idx) + ev)
                    self._cv.notify_all()
                    return
                if (lab, idx) not in self.schedule[self._pos:]:
                    # event not part of the schedule (template shorter than this run): let it pass
                    return
                if not self._cv.wait(timeout=0.5) and time.time() > deadline:
                    self.failed = f'gate timeout at {lab}#{idx} {ev}, waiting for {self.schedule[self._pos:self._pos + 1]}'
                    self._cv.notify_all()
                    raise RuntimeError('replay aborted: ' + self.failed)

    # ---- recording helpers
    def record(self, fn):
        self.events, self.mode = [], 'record'
        try:
            fn()
        finally:
            self.mode = 'off'
        return list(self.events)

    def start_replay(self, schedule):
        self.schedule, self._pos, self._idx, self._last, self.failed, self.replay_log = list(schedule), 0, {}, {}, None, []
        self.mode = 'replay'

    def run_threads(self, activities):
        """activities: {label: callable}. Runs each in its own thread under the current replay schedule."""
        results, errors = {}, {}

        def runner(lab, fn):
            self.set_label(lab)
            try:
                results[lab] = fn()
            except Exception as ex:  # noqa: BLE001
                errors[lab] = repr(ex)
        ths = [threading.Thread(target=runner, args=(lab, fn), daemon=True) for lab, fn in activities.items()]
        for t in ths:
            t.start()
        for t in ths:
            t.join(timeout=40)
        self.mode = 'off'
        return results, errors


class RecLock:
    """Wrapper with the Lock/RLock interface that reports acquire (depth 0->1) and release (1->0) to a Recorder."""

    def __init__(self, rec: Recorder, name: str, inner):
        self.rec, self.name, self.inner = rec, name, inner
        self._depth = threading.local()

    def _d(self):
        return getattr(self._depth, 'n', 0)

    def acquire(self, *a, **k):
        if self._d() == 0:
            self.rec.event('acq', self.name)       # gate BEFORE taking the real lock (the model guarantees it is free)
        r = self.inner.acquire(*a, **k)
        self._depth.n = self._d() + 1
        return r

    def release(self):
        self._depth.n = self._d() - 1
        self.inner.release()
        if self._d() == 0:
            self.rec.event('rel', self.name)

    __enter__ = acquire

    def __exit__(self, *a):
        self.release()

    def locked(self):
        return self.inner.locked() if hasattr(self.inner, 'locked') else False


WATCH_VARS = ('mdib_version',)
TABLES = ('states', 'context_states', 'descriptions')


def instrument_mdib(rec: Recorder, mdib):
    base = type(mdib)

    class Rec(base):
        def __getattribute__(self, name):
            if name in WATCH_VARS:
                rec.event('read', name)
                if rec.taint and rec.mode == 'record':
                    v = base.__getattribute__(self, name)
                    return TaintedInt(v, len(rec.events) - 1) if type(v) is int else v
            elif name in TABLES:
                rec.event('tr', name)            # access to a table (a read unless one of its mutators is called: 'tw')
            return base.__getattribute__(self, name)

        def __setattr__(self, name, value):
            if name in WATCH_VARS:
                rec.event('write', name)
            base.__setattr__(self, name, value)

    Rec.__name__ = base.__name__
    mdib.__class__ = Rec
    for tname in TABLES:
        _instrument_table(rec, base.__getattribute__(mdib, tname), tname)
    object.__setattr__(mdib, 'mdib_lock', RecLock(rec, 'mdib_lock', base.__getattribute__(mdib, 'mdib_lock')))
    object.__setattr__(mdib, '_tr_lock', RecLock(rec, 'tr_lock', base.__getattribute__(mdib, '_tr_lock')))


class _LiveSetProxy:
    """What `table.objects` hands out: the LIVE set. Every use (iteration, len, membership) is a read of the table at the time
    of use - which may be after the lock that protected the attribute access was released."""

    def __init__(self, rec, tname, real):
        self._rec, self._tname, self._real = rec, tname, real

    def __iter__(self):
        self._rec.event('tr', self._tname)
        return iter(list(self._real))

    def __len__(self):
        self._rec.event('tr', self._tname)
        return len(self._real)

    def __contains__(self, item):
        self._rec.event('tr', self._tname)
        return item in self._real

    def __bool__(self):
        return len(self) > 0

    def __getattr__(self, name):
        return getattr(self._real, name)


def _instrument_table(rec: Recorder, table, tname: str):
    tbase = type(table)
    ns = {'objects': property(lambda self: _LiveSetProxy(rec, tname, tbase.objects.fget(self)))}
    for mname in dir(tbase):
        if mname.startswith(('add_object', 'remove_object', 'update_object', 'clear')):
            def mk(mname=mname):
                def method(self, *a, **k):
                    rec.event('tw', tname)
                    return getattr(tbase, mname)(self, *a, **k)
                return method
            ns[mname] = mk()
    table.__class__ = type(tbase.__name__, (tbase,), ns)


# ---------------------------------------------------------------- encoding

def sections(tpl, lock):
    res, start = [], None
    for i, (k, w) in enumerate(tpl):
        if k == 'acq' and w == lock:
            start = i
        if k == 'rel' and w == lock and start is not None:
            res.append((start, i))
            start = None
    return res


def encode(templates: dict, locks=('mdib_lock', 'tr_lock')):
    """templates: {label: [(kind, what), ...]} -> (solver, O) with program order + mutual exclusion."""
    s = z3.Solver()
    order = {}
    for lab, tpl in templates.items():
        for i in range(len(tpl)):
            order[(lab, i)] = z3.Int(f'o_{lab}_{i}')
    if order:
        s.add(z3.Distinct(*order.values()))
    n = len(order)
    for (lab, i), v in order.items():
        s.add(v >= 0, v < n)
        if (lab, i + 1) in order:
            s.add(v < order[(lab, i + 1)])
    labs = list(templates)
    for lock in locks:
        for x in range(len(labs)):
            for y in range(x + 1, len(labs)):
                a, b = labs[x], labs[y]
                for a0, a1 in sections(templates[a], lock):
                    for b0, b1 in sections(templates[b], lock):
                        s.add(z3.Or(order[(a, a1)] < order[(b, b0)], order[(b, b1)] < order[(a, a0)]))
    return s, order


def schedule_from_model(model, order):
    return [key for key, _ in sorted(order.items(), key=lambda kv: model[kv[1]].as_long())]


def idx_of(tpl, kind, what=None):
    return [i for i, (k, w) in enumerate(tpl) if k == kind and (what is None or w == what)]

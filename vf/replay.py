"""Replay a harness call concretely under plain Python (no CrossHair): prints 'LABEL=<label>'."""
import ast
import importlib
import json
import sys


def capture_call(call_src: str):
    """'f(1, b=b"x")' -> ((1,), {'b': b'x'}) using a recorder in place of f."""
    tree = ast.parse(call_src.strip(), mode='eval')
    if not isinstance(tree.body, ast.Call):
        raise ValueError('not a call: ' + call_src)
    name = ast.unparse(tree.body.func)
    rec = lambda *a, **k: (a, k)  # noqa: E731
    env = {name.split('.')[0]: rec, 'float': float, 'nan': float('nan'), 'inf': float('inf')}
    return eval(compile(tree, '<cex>', 'eval'), env)  # noqa: S307 - counterexample text produced by CrossHair


def run(harness: str, func: str, args, kwargs) -> str:
    mod = importlib.import_module(harness)
    try:
        res = getattr(mod, func)(*args, **kwargs)
    except Exception as ex:  # noqa: BLE001
        return 'raises:' + type(ex).__name__
    return res if isinstance(res, str) else repr(res)


if __name__ == '__main__':
    spec = json.loads(sys.argv[1]) if not sys.argv[1].endswith('.json') else json.load(open(sys.argv[1]))
    a, k = capture_call(spec['call'])
    print('LABEL=' + run(spec['harness'], spec['func'], a, k))

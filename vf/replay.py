"""Replay a harness call concretely under plain Python (no CrossHair): prints 'LABEL=<label>'."""
import ast
import importlib
import json
import sys


def capture_call(call_src: str):
    """'f(1, b=b"x")' -> ((1,), {'b': b'x'}) using a recorder in place of f."""
    tree = ast.parse(call_src.strip(), mode='eval')
    if not isinstance(tree.body, ast.Call):
        raise ValueError('not a call: ' + call_src)
    name = ast.unparse(tree.body.func)
    rec = lambda *a, **k: (a, k)  # noqa: E731
    env = {name.split('.')[0]: rec, 'float': float, 'nan': float('nan'), 'inf': float('inf')}
    return eval(compile(tree, '<cex>', 'eval'), env)  # noqa: S307 - counterexample text produced by CrossHair


class _ModEnv(dict):
    def __missing__(self, name):
        return importlib.import_module(name)


def split_patches(call_src: str):
    """CrossHair appends ' with crosshair.patch_to_return({time.time: [..]})' when a nondeterministic library function was
    given symbolic return values. -> (call text, {function object: [values]})."""
    import re
    m = re.match(r'^(.*\)) with crosshair\.patch_to_return\((\{.*\})\)\s*$', call_src.strip(), re.S)
    if not m:
        return call_src, {}
    env = _ModEnv(nan=float('nan'), inf=float('inf'))
    return m.group(1), eval(m.group(2), {'__builtins__': {}}, env)  # noqa: S307


def apply_patches(patches):
    import sys
    for fn, values in patches.items():
        owner = sys.modules.get(getattr(fn, '__module__', None) or '')
        name = getattr(fn, '__name__', None)
        if owner is None or name is None or getattr(owner, name, None) is not fn:
            continue
        vals = list(values)

        def repl(*_a, _vals=vals, _orig=fn, **_k):
            return _vals.pop(0) if _vals else _orig(*_a, **_k)
        setattr(owner, name, repl)


def run(harness: str, func: str, args, kwargs) -> str:
    mod = importlib.import_module(harness)
    try:
        res = getattr(mod, func)(*args, **kwargs)
    except Exception as ex:  # noqa: BLE001
        return 'raises:' + type(ex).__name__
    return res if isinstance(res, str) else repr(res)


if __name__ == '__main__':
    spec = json.loads(sys.argv[1]) if not sys.argv[1].endswith('.json') else json.load(open(sys.argv[1]))
    call, patches = split_patches(spec['call'])
    a, k = capture_call(call)
    importlib.import_module(spec['harness'])
    apply_patches(patches)
    print('LABEL=' + run(spec['harness'], spec['func'], a, k))

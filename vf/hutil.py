"""Helpers imported by harness modules (must stay CrossHair-friendly: pure Python, no C calls on symbolic values)."""
import os

# labels of known findings that are assumed away for the obligation currently analysed (set by vf.main per subprocess)
EXCLUDED = frozenset(x for x in os.environ.get('VERIF_EXCLUDE', '').split(',') if x)


class Oracle:
    """Collects the first violated, non-excluded assertion label. Harness functions return oracle.result()."""

    def __init__(self):
        self.v = None

    def check(self, cond, label):
        if self.v is None and not cond:
            if label not in EXCLUDED:
                self.v = label
        return cond

    def fail(self, label):
        if self.v is None and label not in EXCLUDED:
            self.v = label

    def result(self):
        return 'ok' if self.v is None else self.v


def exc_label(exc, where=''):
    return 'raises:' + type(exc).__name__ + ('@' + where if where else '')


def quiet():
    import logging
    logging.disable(logging.CRITICAL)


def exc_result(orc, ex, where=''):
    """Result of a harness whose body raised `ex`: an earlier recorded violation wins, else the exception label."""
    if orc is not None and orc.v:
        return orc.v
    lab = exc_label(ex, where)
    return 'ok' if lab in EXCLUDED else lab


class untraced:
    """Run a block that touches only CONCRETE data (oracle bookkeeping, snapshots) without CrossHair's tracer.

    Under tracing every bytecode-level call is intercepted (~100x slower); symbolic values must never enter such a block.
    Outside CrossHair (concrete replay) this is a no-op."""

    def __enter__(self):
        self._nt = None
        try:
            from crosshair.tracers import NoTracing, is_tracing
            if is_tracing():
                self._nt = NoTracing()
                self._nt.__enter__()
        except ImportError:
            pass
        return self

    def __exit__(self, *a):
        if self._nt is not None:
            self._nt.__exit__(*a)
        return False


def pick(sel, pool):
    """Choose pool[sel] by explicit branching on the (symbolic) selector: the solver forks, the result is concrete."""
    for i in range(len(pool) - 1):
        if sel == i:
            return pool[i]
    return pool[-1]


def contract_free(fn):
    """Return a copy of harness function `fn` compiled WITHOUT its docstring (hence without its PEP316 contract).

    CrossHair enforces the contracts of functions called from the function under analysis and silently drops every path on
    which a callee's own postcondition fails ("internal failed post condition") - which would hide exactly the violations a
    generated wrapper (case split via `bind`, reachability twin) is looking for. CrossHair reads contracts from the SOURCE,
    so clearing __doc__ is not enough: the copy is recompiled from the source with the docstring removed."""
    import ast
    import inspect
    import sys
    import textwrap
    mod = sys.modules[fn.__module__]
    tree = ast.parse(textwrap.dedent(inspect.getsource(fn)))
    fd = tree.body[0]
    fd.name = fn.__name__ + '__impl'
    fd.decorator_list = []
    if fd.body and isinstance(fd.body[0], ast.Expr) and isinstance(getattr(fd.body[0], 'value', None), ast.Constant) \
            and isinstance(fd.body[0].value.value, str):
        fd.body = fd.body[1:] or [ast.Pass()]
    ast.increment_lineno(tree, fn.__code__.co_firstlineno - 1)
    ns = {}
    exec(compile(tree, f'<contract-free copy of {fn.__module__}.{fn.__name__}>', 'exec'), mod.__dict__, ns)  # noqa: S102
    return ns[fd.name]


def concrete(value):
    """The plain Python value of a (possibly CrossHair-symbolic) value - for handing it to C code (lxml, struct ...), which
    rejects CrossHair's proxy types. Outside CrossHair: the value itself."""
    try:
        from crosshair.core import deep_realize
    except ImportError:
        return value
    return deep_realize(value)


_LRU = []


def clear_library_caches(prefix='sdc11073'):
    """Empty every functools.lru_cache / cache found in the library's modules (module level and class attributes). CrossHair
    runs all paths of an obligation in ONE process: a memoised result created on one path (possibly holding objects that path
    mutated) must not leak into the next path or make a counterexample irreproducible in the fresh replay process."""
    import functools
    import sys
    if not _LRU:
        seen = set()
        for name, mod in list(sys.modules.items()):
            if not name.startswith(prefix) or mod is None:
                continue
            for val in list(vars(mod).values()):
                cands = [val]
                if isinstance(val, type):
                    cands.extend(getattr(v, '__func__', v) for v in vars(val).values())
                for c in cands:
                    if isinstance(c, functools._lru_cache_wrapper) and id(c) not in seen:
                        seen.add(id(c))
                        _LRU.append(c)
        _LRU.append(None)       # scanned (even if nothing was found)
    for c in _LRU:
        if c is not None:
            c.cache_clear()

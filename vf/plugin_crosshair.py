# CrossHair 0.0.110 patches builtin setattr with a version that runs under NoTracing; data descriptors'
# __set__ (every sdc11073 container property) then sees isinstance(SymbolicInt, int) == False.
# Replace the patch by a traced equivalent. (Plugin files are exec'd in an odd namespace: keep functions self-contained.)
from crosshair import core


def _traced_setattr(obj, name, value):
    return type(obj).__setattr__(obj, name, value)


core._PATCH_REGISTRATIONS[setattr] = _traced_setattr

"""Driver: ./check <ID> quick|thorough

Runs every obligation of a property (CrossHair harness conditions, SMT obligations) in parallel, replays every
counterexample concretely on the real code, matches known findings, writes evidence, prints the interface lines.

Exit codes: 0 = held on everything explored (inconclusive obligations are listed, never counted as pass),
            1 = VIOLATION (replayed), 3 = harness error (non-reproducing counterexample, crashed obligation).
"""
from __future__ import annotations

import ast
import concurrent.futures as cf
import fnmatch
import hashlib
import importlib
import json
import os
import re
import subprocess
import sys
import time
from dataclasses import dataclass, field
from pathlib import Path

ROOT = Path(__file__).resolve().parent.parent
WORK = ROOT / '.work'
PY = str(ROOT / '.venv' / 'bin' / 'python')
CROSSHAIR = str(ROOT / '.venv' / 'bin' / 'crosshair')
PLUGIN = str(ROOT / 'vf' / 'plugin_crosshair.py')
EVID = Path(os.environ.get('VERIF_EVIDENCE_DIR') or (ROOT / 'evidence'))   # redirected by tools/mutcheck.sh so mutant runs never touch real evidence
NPROC = int(os.environ.get('VERIF_JOBS', os.cpu_count() or 4))


@dataclass
class Ob:
    """One obligation. kind 'ch': CrossHair over harness function `func` of module `harness`.
    kind 'py': python callable `harness:func(**params)` run in a subprocess, returning a result dict."""
    id: str
    harness: str
    func: str
    kind: str = 'ch'
    timeout: float = 40          # crosshair: per_condition_timeout (CPU s); py: wall s
    bounds: str = ''
    functions: list = field(default_factory=list)   # qualified names of real code executed / encoded
    stubs: list = field(default_factory=list)       # environment stubs / assumptions that are part of the claim
    params: dict = field(default_factory=dict)      # kind 'py'
    twin: bool = True                               # run the reachability twin
    bind: dict = field(default_factory=dict)        # kind 'ch': harness parameters fixed to constants (one process per case split)
    claim: str = ''                                 # what 'confirmed' means for this obligation


# ---------------------------------------------------------------- CrossHair plumbing

GEN = WORK / 'gen' / f'run{os.getpid()}'     # per run: concurrent runs (quick + thorough, seed checks) must not overwrite each other's wrappers


def _modpath(harness: str) -> Path:
    p = ROOT / (harness.replace('.', '/') + '.py')
    return p if p.exists() else GEN / (harness + '.py')


def _fdef(harness: str, func: str):
    path = _modpath(harness)
    src = path.read_text()
    for node in ast.parse(src).body:
        if isinstance(node, ast.FunctionDef) and node.name == func:
            return path, node
    raise KeyError(f'{harness}.{func} not found')


def _names_in(expr: str) -> set:
    try:
        return {n.id for n in ast.walk(ast.parse(expr, mode='eval')) if isinstance(n, ast.Name)}
    except SyntaxError:
        return set()


def _wrap(harness: str, func: str, new_mod: str, new_func: str, bind: dict, post: str) -> tuple[str, str]:
    """Generate a module with a wrapper of harness.func: parameters in `bind` fixed to constants, pre lines kept
    (those mentioning a bound name get the constant substituted), the given post line."""
    _, node = _fdef(harness, func)
    doc = ast.get_docstring(node) or ''
    pres = [ln.strip()[4:].strip() for ln in doc.splitlines() if ln.strip().startswith('pre:')]
    args = [a for a in node.args.args if a.arg not in bind]
    sig = ', '.join(f'{a.arg}: {ast.unparse(a.annotation)}' if a.annotation else a.arg for a in args)
    call = ', '.join(f'{a.arg}={bind[a.arg]!r}' if a.arg in bind else f'{a.arg}={a.arg}' for a in node.args.args)
    GEN.mkdir(parents=True, exist_ok=True)
    body = [f'from {harness} import *  # noqa', f'import {harness} as _m', 'from vf.hutil import contract_free as _cf', '',
            '# call a contract-free copy: CrossHair ENFORCES the PEP316 contract of a called function and silently drops paths',
            '# on which the callee\'s own post fails ("internal failed post condition") - that would hide every violation.',
            f'_impl = _cf(_m.{func})', '']
    body += [f'{k} = {v!r}' for k, v in bind.items()]   # bound names visible to the pre expressions
    body += ['', f'def {new_func}({sig}) -> str:', '    """']
    body += [f'    pre: {p}' for p in pres if _names_in(p) & {a.arg for a in args}]
    body += [f'    post: {post}', '    """', f'    return _impl({call})', '']
    (GEN / f'{new_mod}.py').write_text('\n'.join(body))
    return new_mod, new_func


def _materialize(ob: 'Ob') -> tuple[str, str]:
    if not ob.bind:
        return ob.harness, ob.func
    safe = re.sub(r'\W', '_', ob.id)
    return _wrap(ob.harness, ob.func, 'b_' + safe, ob.func + '__b', ob.bind, "__return__ == 'ok'")


def _mk_twin(harness: str, func: str) -> tuple[str, str]:
    """Reachability twin: same signature and preconditions, post demands the result is NOT 'ok'; CrossHair must refute it."""
    return _wrap(harness, func, 't_' + re.sub(r'\W', '_', harness) + '__' + func, func + '__twin', {}, "__return__ != 'ok'")


_MSG = re.compile(r'^(?P<file>[^:]+):(?P<line>\d+): (?P<sev>error|info|warning): (?P<msg>.*)$')


def _run_crosshair(path: Path, line: int, timeout: float, exclude: list[str]) -> dict:
    env = dict(os.environ, PYTHONPATH=f'{ROOT}:{GEN}:{os.environ.get("PYTHONPATH", "")}', VERIF_EXCLUDE=','.join(exclude),
               PYTHONDONTWRITEBYTECODE='1', PYTHONHASHSEED='0')
    cmd = [CROSSHAIR, 'check', '--report_all', '--per_condition_timeout', str(timeout),
           '--extra_plugin', PLUGIN, '--analysis_kind', 'PEP316', f'{path}:{line}']
    t0 = time.time()
    try:
        p = subprocess.run(cmd, capture_output=True, text=True, env=env, cwd=str(ROOT), timeout=timeout * 6 + 300)
        out, err, rc = p.stdout, p.stderr, p.returncode
    except subprocess.TimeoutExpired as ex:
        out, err, rc = (ex.stdout or b'').decode() if isinstance(ex.stdout, bytes) else (ex.stdout or ''), 'wall timeout', 124
    wall = time.time() - t0
    res = {'wall_s': round(wall, 2), 'rc': rc, 'raw': out.strip()[-2000:], 'verdict': 'inconclusive', 'reason': ''}
    msgs = [m.groupdict() for m in (_MSG.match(ln) for ln in out.splitlines()) if m]
    errs = [m for m in msgs if m['sev'] == 'error']
    if errs:
        msg = errs[0]['msg']
        res['verdict'] = 'counterexample'
        res['message'] = msg
        m = re.search(r'when calling (.*?)(?: \(which returns (.*)\))?$', msg)
        if m:
            res['call'] = m.group(1)
            res['returns'] = m.group(2)
    elif any('Confirmed over all paths' in m['msg'] for m in msgs):
        res['verdict'] = 'confirmed'
    elif msgs:
        res['reason'] = msgs[0]['msg']
    else:
        res['reason'] = f'no crosshair verdict (rc={rc}) {err.strip()[-400:]}'
        if rc == 124:
            res['reason'] = 'wall-clock timeout (machine loaded); inconclusive'
        elif rc not in (0, 1):
            res['verdict'] = 'error'
    return res


def _replay(harness: str, func: str, call: str, exclude=()) -> str:
    spec = json.dumps({'harness': harness, 'func': func, 'call': call})
    env = dict(os.environ, PYTHONPATH=f'{ROOT}:{GEN}:{os.environ.get("PYTHONPATH", "")}', PYTHONDONTWRITEBYTECODE='1',
               VERIF_EXCLUDE=','.join(exclude))
    p = subprocess.run([PY, '-m', 'vf.replay', spec], capture_output=True, text=True, env=env, cwd=str(ROOT), timeout=600)
    for ln in p.stdout.splitlines():
        if ln.startswith('LABEL='):
            return ln[6:]
    return 'replay-crashed:' + (p.stderr.strip().splitlines() or ['?'])[-1][:200]


def _replay_spec(w: dict, ob_id: str, tier: str = 'quick') -> str:
    """Replay a stored witness (known finding or replay file) on the current tree; returns the label it produces."""
    if w.get('kind', 'ch') == 'ch':
        hm, hf = _materialize(Ob(ob_id, w['harness'], w['func'], bind=w.get('bind') or {}))
        return _replay(hm, hf, w['call'])
    r = _run_py(Ob(ob_id, w['harness'], w.get('replay_func', 'replay'), kind='py',
                   params={'witness': w['witness']}, timeout=300), [], tier)
    return r.get('label', r.get('verdict'))


def _run_py(ob: Ob, exclude: list[str], tier: str) -> dict:
    spec = json.dumps({'module': ob.harness, 'func': ob.func, 'params': ob.params, 'exclude': exclude, 'tier': tier,
                       'timeout': ob.timeout, 'seed': int(os.environ.get('VERIF_SEED', '0'))})
    env = dict(os.environ, PYTHONPATH=f'{ROOT}:{GEN}:{os.environ.get("PYTHONPATH", "")}', PYTHONDONTWRITEBYTECODE='1')
    t0 = time.time()
    try:
        p = subprocess.run([PY, '-m', 'vf.pyob', spec], capture_output=True, text=True, env=env, cwd=str(ROOT),
                           timeout=ob.timeout * 1.5 + 120)
        out, err = p.stdout, p.stderr
    except subprocess.TimeoutExpired:
        return {'verdict': 'inconclusive', 'reason': 'wall timeout', 'wall_s': round(time.time() - t0, 2)}
    for ln in reversed(out.splitlines()):
        if ln.startswith('RESULT='):
            res = json.loads(ln[7:])
            res['wall_s'] = round(time.time() - t0, 2)
            return res
    return {'verdict': 'error', 'reason': 'no RESULT line: ' + (err.strip()[-600:] or out.strip()[-300:]),
            'wall_s': round(time.time() - t0, 2)}


# ---------------------------------------------------------------- findings

def load_findings(prop: str):
    path = ROOT / 'known_findings.json'
    if not path.exists():
        return []
    data = json.loads(path.read_text())
    return [f for f in data.get('findings', []) if f['property'] == prop]


def _sha(path):
    try:
        return hashlib.sha1(Path(path).read_bytes()).hexdigest()[:12]
    except OSError:
        return None


def _resolve_sources(qualnames):
    """qualified names -> {name: 'file@sha1'} read from /repo's working tree (shows the encoding is regenerated from it)."""
    import inspect
    out = {}
    for qn in qualnames:
        try:
            parts = qn.split('.')
            obj = None
            for i in range(len(parts), 0, -1):
                try:
                    obj = importlib.import_module('.'.join(parts[:i]))
                    rest = parts[i:]
                    break
                except ImportError:
                    continue
            for r in rest:
                obj = getattr(obj, r)
            obj = inspect.unwrap(obj) if callable(obj) else obj
            if isinstance(obj, property):
                obj = obj.fget
            f = inspect.getsourcefile(obj)
            out[qn] = f'{f}@{_sha(f)}'
        except Exception as ex:  # noqa: BLE001
            out[qn] = f'unresolved ({type(ex).__name__})'
    return out


# ---------------------------------------------------------------- main

def run_property(prop: str, tier: str) -> int:
    t_start = time.time()
    try:
        import logging
        logging.disable(logging.CRITICAL)
    except Exception:  # noqa: BLE001
        pass
    mod = importlib.import_module(f'checks.{prop}')
    obls: list[Ob] = mod.obligations(tier)
    only = os.environ.get('VERIF_ONLY')      # development aid (never set by a registered command): a subset of the obligations
    if only:
        obls = [o for o in obls if any(t in o.id for t in only.split(','))]
    known = load_findings(prop)
    lines, violations, harness_errors = [], [], []
    known_hits = []

    # phase 1: known findings — replay each stored witness on the current tree; only a reproducing one is assumed away
    exclude: dict[str, list[str]] = {}
    for kf in known:
        w = kf['witness']
        label = _replay_spec(w, kf['obligation'].replace('*', 'x'), tier)
        still = label == kf['label']
        kf['_reproduced'] = still
        kf['_replay_label'] = label
        if still:
            # 'obligation' may be a glob: one defective call site can sit behind a whole family of case-split obligations
            for ob in obls:
                if fnmatch.fnmatchcase(ob.id, kf['obligation']):
                    exclude.setdefault(ob.id, []).append(kf['label'])
            known_hits.append(kf)
            lines.append(f'KNOWN-FINDING: property={prop} obligation={kf["obligation"]} {kf["label"]}: {kf["what"]}')

    # phase 2: obligations (+ reachability twins) in parallel
    tasks = {}
    materialized = {}
    results: dict[str, dict] = {}
    with cf.ThreadPoolExecutor(max_workers=NPROC) as ex:
        for ob in obls:
            exc = exclude.get(ob.id, [])
            if ob.kind == 'ch':
                hm, hf = _materialize(ob)
                materialized[ob.id] = (hm, hf)
                path, node = _fdef(hm, hf)
                tasks[ex.submit(_run_crosshair, path, node.lineno + 1, ob.timeout, exc)] = (ob, 'main')
                if ob.twin:
                    tm, tf = _mk_twin(hm, hf)
                    tpath, tnode = _fdef(tm, tf)
                    tasks[ex.submit(_run_crosshair, tpath, tnode.lineno + 1, min(ob.timeout, 60), exc)] = (ob, 'twin')
            else:
                tasks[ex.submit(_run_py, ob, exc, tier)] = (ob, 'main')
        for fut in cf.as_completed(tasks):
            ob, role = tasks[fut]
            try:
                r = fut.result()
            except Exception as e:  # noqa: BLE001
                r = {'verdict': 'error', 'reason': f'{type(e).__name__}: {e}'}
            results.setdefault(ob.id, {})[role] = r

    # phase 3: triage
    ob_records = []
    rep_dir = EVID / 'replays'
    for ob in obls:
        r = results[ob.id]['main']
        rec = {'id': ob.id, 'engine': 'crosshair+z3' if ob.kind == 'ch' else r.get('engine', 'smt'), 'claim': ob.claim,
               'harness': f'{ob.harness}.{ob.func}', 'bounds': ob.bounds, 'functions': ob.functions, 'stubs_and_assumes': ob.stubs,
               'budget_s': ob.timeout, 'solver_wall_s': r.get('wall_s'), 'verdict': r['verdict'],
               'assumed_away_known_findings': exclude.get(ob.id, [])}
        for k in ('queries', 'paths', 'solver_s', 'detail', 'reason', 'sample', 'engine_detail'):
            if r.get(k) not in (None, ''):
                rec[k] = r[k]
        if ob.kind == 'ch':
            tw = results[ob.id].get('twin')
            if tw is not None:
                # the twin's post (result != 'ok') must be refuted, i.e. some path reaches the end with all assertions evaluated
                rec['reachability_twin'] = 'reached' if tw['verdict'] == 'counterexample' and tw.get('returns') in ("'ok'", '"ok"') \
                    else f'not shown ({tw["verdict"]}: {tw.get("reason") or tw.get("message", "")})'
                rec['twin_witness'] = tw.get('call')
                if rec['reachability_twin'] != 'reached' and r['verdict'] == 'confirmed':
                    rec['verdict'] = 'inconclusive'
                    rec['reason'] = 'confirmed but reachability twin did not reach the final assertion (possible vacuity)'
        else:
            rec['reachability_twin'] = 'reached' if r.get('reach') else 'not shown'
            if r['verdict'] == 'confirmed' and not r.get('reach'):
                rec['verdict'] = 'inconclusive'
                rec['reason'] = 'unsat but assumption set not shown satisfiable'
        if r['verdict'] == 'counterexample':
            if ob.kind == 'ch':
                call = r.get('call')
                label = _replay(*materialized[ob.id], call, exclude.get(ob.id, [])) if call else 'unparsed'
                rec['counterexample'] = {'call': call, 'crosshair_says': r.get('message'), 'replay_label': label}
                reproduced = label not in ('ok',) and not label.startswith('replay-crashed') and label != 'unparsed'
            else:
                label = r.get('label', '?')
                rec['counterexample'] = {'witness': r.get('witness'), 'replay_label': label, 'detail': r.get('detail')}
                reproduced = bool(r.get('replayed'))
            if reproduced:
                rep_dir.mkdir(parents=True, exist_ok=True)
                rp = rep_dir / f'{ob.id}.json'
                rp.write_text(json.dumps({'property': prop, 'obligation': ob.id, 'label': label, 'kind': ob.kind,
                                          'harness': ob.harness, 'func': ob.func, 'bind': ob.bind, 'call': r.get('call'),
                                          'witness': r.get('witness'), 'message': r.get('message') or r.get('detail'),
                                          'how': f'./check {prop} --replay {rp}'}, indent=1, default=str))
                violations.append((ob.id, label, rp))
                rec['verdict'] = 'violation'
            else:
                harness_errors.append((ob.id, f'counterexample did not reproduce concretely: {rec["counterexample"]}'))
                rec['verdict'] = 'harness-error'
        elif r['verdict'] == 'error':
            harness_errors.append((ob.id, r.get('reason', '')))
            rec['verdict'] = 'harness-error'
        ob_records.append(rec)

    # phase 4: evidence
    confirmed = [o for o in ob_records if o['verdict'] == 'confirmed']
    inconcl = [o for o in ob_records if o['verdict'] == 'inconclusive']
    all_funcs = sorted({f for o in obls for f in o.functions})
    srcs = _resolve_sources(all_funcs)
    meta = getattr(mod, 'META', {})
    evidence = {
        'property_id': prop, 'tier': tier, 'seed': int(os.environ.get('VERIF_SEED', '0')), 'level': 'model_checking',
        'coverage': {
            'evaluations': len(ob_records),
            'distinct_nontrivial': len([o for o in ob_records if o.get('reachability_twin') == 'reached'
                                        and o['verdict'] in ('confirmed', 'violation')]),
            'rule': 'one evaluation = one solver-decided obligation (a CrossHair condition over a harness that drives the real '
                    'sdc11073 functions with symbolic inputs, or one SMT query generated from the current source); non-trivial = '
                    'verdict is confirmed/violation AND the reachability twin reached the final assertion; obligations are '
                    'distinct by id. inconclusive obligations (timeouts, unknown) are listed and never counted.',
            'obligations': len(ob_records), 'discharged': len(confirmed), 'inconclusive': len(inconcl),
            'inconclusive_ids': [o['id'] for o in inconcl],
            'known_findings_reproduced': [{'obligation': k['obligation'], 'label': k['label'], 'what': k['what']} for k in known_hits],
            'known_findings_not_reproduced': [{'obligation': k['obligation'], 'label': k['label'], 'replay_label': k['_replay_label']}
                                              for k in known if not k['_reproduced']],
            'functions_encoded': srcs,
            'solver_time_s': round(sum((o.get('solver_wall_s') or 0) for o in ob_records), 1),
            'samples': ob_records,
            'explanation': meta.get('explanation', ''),
            'outside_claim': meta.get('outside', []),
        },
        'assumptions': sorted({s for o in obls for s in o.stubs} | set(meta.get('assumptions', []))),
        'wall_s': round(time.time() - t_start, 1),
        'violations': len(violations),
    }
    EVID.mkdir(parents=True, exist_ok=True)
    (EVID / f'{prop}.json').write_text(json.dumps(evidence, indent=1, default=str))

    for ln in lines:
        print(ln)
    for o in ob_records:
        print(f'  [{o["verdict"]:>13}] {o["id"]}  ({o.get("solver_wall_s")} s) {o.get("reason", "")}'.rstrip())
    for oid, label, rp in violations:
        print(f'VIOLATION property={prop} replay={rp}   # obligation={oid} label={label}')
    for oid, why in harness_errors:
        print(f'HARNESS-ERROR property={prop} obligation={oid}: {why}')
    print(f'{prop} {tier}: {len(confirmed)} confirmed, {len(inconcl)} inconclusive, {len(violations)} violations, '
          f'{len(known_hits)} known findings, {len(harness_errors)} harness errors, {evidence["wall_s"]} s')
    if violations:
        return 1
    if harness_errors:
        return 3
    return 0


def replay_file(path: str) -> int:
    spec = json.loads(Path(path).read_text())
    label = _replay_spec(spec, spec['obligation'])
    print(f'replay of {spec["obligation"]}: label={label} (recorded: {spec["label"]})')
    return 1 if label == spec['label'] else 0


def _cleanup_gen():
    import shutil
    shutil.rmtree(GEN, ignore_errors=True)


if __name__ == '__main__':
    import atexit
    atexit.register(_cleanup_gen)
    if len(sys.argv) >= 3 and sys.argv[2] == '--replay':
        sys.exit(replay_file(sys.argv[3]))
    if '--replay' in sys.argv:
        sys.exit(replay_file(sys.argv[sys.argv.index('--replay') + 1]))
    prop = sys.argv[1]
    tier = sys.argv[2] if len(sys.argv) > 2 else os.environ.get('VERIF_TIER', 'quick')
    sys.exit(run_property(prop, tier))

"""Run one 'py' obligation: module:func(ctx) -> result dict. Prints RESULT=<json> as the last line.

result keys: verdict (confirmed|inconclusive|counterexample|error), reach (bool: assumptions satisfiable / assertion reachable),
label, witness, replayed (bool: counterexample reproduced on the real code), queries, solver_s, detail, engine, sample.
"""
import importlib
import json
import sys
import traceback


class Ctx(dict):
    __getattr__ = dict.get


if __name__ == '__main__':
    spec = json.loads(sys.argv[1])
    import logging
    logging.disable(logging.CRITICAL)
    try:
        mod = importlib.import_module(spec['module'])
        ctx = Ctx(params=spec.get('params', {}), exclude=set(spec.get('exclude', [])), tier=spec.get('tier', 'quick'),
                  timeout=spec.get('timeout', 60), seed=spec.get('seed', 0))
        res = getattr(mod, spec['func'])(ctx)
    except Exception as ex:  # noqa: BLE001
        res = {'verdict': 'error', 'reason': f'{type(ex).__name__}: {ex}', 'detail': traceback.format_exc()[-1500:]}
    print('RESULT=' + json.dumps(res, default=str))
